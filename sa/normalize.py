"""Behaviour-preserving normalisation of the parsed package before analysis.

Refactorings routinely introduce small private helpers ("extract method").  A rule that reasons about the
paths of one function would lose sight of the extracted code, so helpers that did **not** exist in the verified
baseline (``baseline_functions.json``) are inlined back into their call sites on the model's own copy of the AST:

* expression helpers - body is a single ``return <expr>`` or an if/elif/else tree of returns - are substituted as
  (conditional) expressions wherever they are called;
* statement helpers are inlined at ``return helper(...)`` (tail call) and ``name = helper(...)`` / ``a, b = helper(...)``
  sites when every ``return`` of the helper is in tail position.

Calls are resolved package-wide from the syntax: ``self.h(...)``/``cls.h(...)`` through the enclosing class and its
bases, ``ClassName.h(...)`` for class/static methods of any package class, ``h(...)`` for module-level functions (same
module first, else a unique one in the package); new read-only *properties* whose body is an expression are inlined at
``self.p`` and - when the name is unique in the package - at ``<expr>.p``.  Statement helpers may contain ``match``
statements and early returns (they are first rewritten into a strict tree); they are inlined at ``return h()``,
``x = h()``, ``a, b = h()`` and bare ``h()`` statements.  Recursion, generators, nested defs, *args/**kwargs,
defaulted parameters and helpers that re-bind a parameter are not inlined.  Nothing in /repo is modified.
"""

from __future__ import annotations

import ast
import copy
import json
import os

_BASELINE: set[str] | None = None


def baseline() -> set[str]:
    global _BASELINE
    if _BASELINE is None:
        path = os.path.join(os.path.dirname(os.path.abspath(__file__)), "baseline_functions.json")
        try:
            with open(path, encoding="utf-8") as f:
                _BASELINE = set(json.load(f)["functions"])
        except OSError:
            _BASELINE = set()
    return _BASELINE


def _body(fn: ast.FunctionDef) -> list[ast.stmt]:
    b = fn.body
    if b and isinstance(b[0], ast.Expr) and isinstance(b[0].value, ast.Constant) and isinstance(b[0].value.value, str):
        b = b[1:]
    return b


def _simple_params(fn: ast.FunctionDef, is_method: bool) -> list[str] | None:
    a = fn.args
    if a.vararg or a.kwarg or a.kwonlyargs or a.posonlyargs:
        return None
    names = [x.arg for x in a.args]
    if is_method and names:
        names = names[1:]
    return names


MAX_TREE_NODES = 6000


def _irrefutable(case: ast.match_case) -> bool:
    p = case.pattern
    return case.guard is None and isinstance(p, ast.MatchAs) and p.pattern is None


def _to_tree(stmts: list[ast.stmt], budget: list[int] | None = None) -> list[ast.stmt] | None:
    """Rewrite a function-body suffix into a strict tree in which every branch ends in ``return``/``raise``:
    ``if c: return a`` + rest  ->  ``if c: return a`` ``else: rest``; a ``match`` followed by more statements gets the
    rest appended to every case that falls through (and a wildcard case holding the rest if it has none).  Falling off
    the end is ``return None``.  None when a loop/try/with contains a return, or the tree grows unreasonably."""
    budget = budget if budget is not None else [MAX_TREE_NODES]
    out: list[ast.stmt] = []
    for i, s in enumerate(stmts):
        budget[0] -= 1
        if budget[0] < 0:
            return None
        if isinstance(s, (ast.FunctionDef, ast.ClassDef, ast.AsyncFunctionDef)):
            return None
        if isinstance(s, (ast.Return, ast.Raise)):
            out.append(s)
            return out  # anything after is dead
        if not any(isinstance(n, ast.Return) for n in ast.walk(s)):
            out.append(s)
            continue
        rest = stmts[i + 1 :]
        if isinstance(s, ast.If):
            body = _to_tree(list(s.body) + copy.deepcopy(rest), budget)
            orelse = _to_tree(list(s.orelse) + copy.deepcopy(rest), budget)
            if body is None or orelse is None:
                return None
            out.append(ast.copy_location(ast.If(test=s.test, body=body, orelse=orelse), s))
            return out
        if isinstance(s, ast.Match):
            cases = []
            for c in s.cases:
                body = _to_tree(list(c.body) + copy.deepcopy(rest), budget)
                if body is None:
                    return None
                cases.append(ast.match_case(pattern=c.pattern, guard=c.guard, body=body))
            if not any(_irrefutable(c) for c in s.cases):
                tail = _to_tree(copy.deepcopy(rest), budget)
                if tail is None:
                    return None
                cases.append(ast.match_case(pattern=ast.MatchAs(pattern=None, name=None), guard=None, body=tail))
            out.append(ast.copy_location(ast.Match(subject=s.subject, cases=cases), s))
            return out
        return None
    # fell off the end: an implicit ``return None``
    r = ast.Return(value=ast.Constant(None))
    r._implicit = True  # type: ignore[attr-defined]
    if stmts:
        ast.copy_location(r, stmts[-1])
    out.append(r)
    return out


def _ends_closed(stmts: list[ast.stmt]) -> bool:
    if not stmts:
        return False
    last = stmts[-1]
    if isinstance(last, (ast.Return, ast.Raise)):
        return True
    if isinstance(last, ast.If):
        return bool(last.orelse) and _ends_closed(last.body) and _ends_closed(last.orelse)
    if isinstance(last, ast.Match):
        return any(_irrefutable(c) for c in last.cases) and all(_ends_closed(c.body) for c in last.cases)
    return False


def _as_expression(stmts: list[ast.stmt]) -> ast.expr | None:
    """An if/else tree of plain returns as one (conditional) expression."""
    if len(stmts) == 1 and isinstance(stmts[0], ast.Return) and stmts[0].value is not None and not getattr(stmts[0], "_implicit", False):
        return stmts[0].value
    if len(stmts) == 1 and isinstance(stmts[0], ast.If) and stmts[0].orelse:
        a, b = _as_expression(stmts[0].body), _as_expression(stmts[0].orelse)
        if a is not None and b is not None:
            return ast.IfExp(test=stmts[0].test, body=a, orelse=b)
    return None


class _Subst(ast.NodeTransformer):
    def __init__(self, mapping: dict[str, ast.expr]):
        self.mapping = mapping

    def visit_Name(self, node):
        if node.id in self.mapping and isinstance(node.ctx, ast.Load):
            return copy.deepcopy(self.mapping[node.id])
        return node

    def visit_Lambda(self, node):
        shadow = {a.arg for a in node.args.args}
        inner = _Subst({k: v for k, v in self.mapping.items() if k not in shadow})
        node.body = inner.visit(node.body)
        return node


_COMPS = (ast.ListComp, ast.SetComp, ast.DictComp, ast.GeneratorExp)


class _FreshenComprehensions(ast.NodeTransformer):
    """Give comprehension-scoped variables names of their own (``x`` -> ``x__cN``): they live in a nested scope, so
    they neither re-bind a parameter of the enclosing function nor may they be touched by substituting for it."""

    def __init__(self, counter: list[int]):
        self.counter = counter

    def _comp(self, node):
        # inner comprehensions first
        self.generic_visit(node)
        bound: set[str] = set()
        for g in node.generators:
            bound |= {n.id for n in ast.walk(g.target) if isinstance(n, ast.Name)}
        if not bound:
            return node
        self.counter[0] += 1
        suffix = f"__c{self.counter[0]}"

        class R(ast.NodeTransformer):
            def visit_Name(self, n):
                if n.id in bound:
                    return ast.copy_location(ast.Name(n.id + suffix, n.ctx), n)
                return n

        first_iter = node.generators[0].iter  # evaluated in the enclosing scope
        for g in node.generators:
            g.target = R().visit(g.target)
            g.ifs = [R().visit(x) for x in g.ifs]
            if g is not node.generators[0]:
                g.iter = R().visit(g.iter)
        node.generators[0].iter = first_iter
        if isinstance(node, ast.DictComp):
            node.key = R().visit(node.key)
            node.value = R().visit(node.value)
        else:
            node.elt = R().visit(node.elt)
        return node

    visit_ListComp = visit_SetComp = visit_DictComp = visit_GeneratorExp = _comp


def _pure_arg(e: ast.expr) -> bool:
    """Cheap and side-effect free to duplicate: names, attribute chains, constants."""
    while isinstance(e, ast.Attribute):
        e = e.value
    return isinstance(e, (ast.Name, ast.Constant))


class Helper:
    def __init__(self, fn, kind, recv, params, tree, expr, owner, module):
        self.fn, self.kind, self.recv, self.params, self.tree, self.expr, self.owner, self.module = fn, kind, recv, params, tree, expr, owner, module
        self.rebound: set[str] = set()


class _Package:
    """Package-wide index used to resolve helper calls: classes by (module, name), their bases, the new helpers."""

    def __init__(self, trees: dict[str, ast.Module]):
        self.trees = trees
        self.classes: dict[tuple[str, str], ast.ClassDef] = {}
        self.by_name: dict[str, list[tuple[str, str]]] = {}
        self.methods: dict[tuple[str, str, str], Helper] = {}
        self.functions: dict[tuple[str, str], Helper] = {}
        self.properties: dict[str, list[Helper]] = {}
        self.attr_names: dict[str, int] = {}
        for rel, tree in trees.items():
            for node in tree.body:
                if isinstance(node, ast.ClassDef):
                    self.classes[(rel, node.name)] = node
                    self.by_name.setdefault(node.name, []).append((rel, node.name))
                    for s in node.body:
                        for nm in self._defined(s):
                            self.attr_names[nm] = self.attr_names.get(nm, 0) + 1
        self.base_attrs = {q.split("::", 1)[1].split(".")[-1] for q in baseline() if "::" in q}

    @staticmethod
    def _defined(s: ast.stmt) -> list[str]:
        if isinstance(s, (ast.FunctionDef, ast.AsyncFunctionDef, ast.ClassDef)):
            return [s.name]
        if isinstance(s, ast.AnnAssign) and isinstance(s.target, ast.Name):
            return [s.target.id]
        if isinstance(s, ast.Assign):
            return [t.id for t in s.targets if isinstance(t, ast.Name)]
        return []

    def resolve_class(self, rel: str, name: str) -> tuple[str, str] | None:
        if (rel, name) in self.classes:
            return (rel, name)
        c = self.by_name.get(name, [])
        return c[0] if len(c) == 1 else None

    def lineage(self, key: tuple[str, str]) -> list[tuple[str, str]]:
        out, todo = [], [key]
        while todo:
            k = todo.pop(0)
            if k in out or k not in self.classes:
                continue
            out.append(k)
            for b in self.classes[k].bases:
                e = b.value if isinstance(b, ast.Subscript) else b
                nm = e.id if isinstance(e, ast.Name) else e.attr if isinstance(e, ast.Attribute) else None
                if nm:
                    r = self.resolve_class(k[0], nm)
                    if r:
                        todo.append(r)
        return out

    def method(self, cls_key: tuple[str, str] | None, name: str) -> Helper | None:
        if cls_key is None:
            return None
        for k in self.lineage(cls_key):
            # the first class in the lineage that defines the name decides (an old, baseline definition hides a new one)
            node = self.classes[k]
            if any(name in self._defined(s) for s in node.body):
                return self.methods.get((k[0], k[1], name))
        return None

    def function(self, rel: str, name: str) -> Helper | None:
        h = self.functions.get((rel, name))
        if h is not None:
            return h
        tree = self.trees.get(rel)
        if tree is not None and any(name in self._defined(s) for s in tree.body):
            return None  # a different module-level definition of that name
        c = [v for (r, n), v in self.functions.items() if n == name]
        return c[0] if len(c) == 1 else None


def _collect_helpers(pkg: _Package, counter: list[int]) -> None:
    base = baseline()
    if not base:
        return

    def consider(rel: str, fn: ast.FunctionDef, owner: str | None) -> None:
        qual = f"{owner}.{fn.name}" if owner else fn.name
        if f"{rel}::{qual}" in base:
            return
        deco = {d.id if isinstance(d, ast.Name) else d.attr if isinstance(d, ast.Attribute) else "?" for d in fn.decorator_list}
        if fn.name.startswith("__") or deco - {"staticmethod", "classmethod", "property", "final"}:
            return
        a = fn.args
        if a.vararg or a.kwarg or a.posonlyargs or a.defaults or any(d is not None for d in a.kw_defaults):
            return
        names = [x.arg for x in a.args]
        kwonly_names = [x.arg for x in a.kwonlyargs]  # keyword-only parameters without defaults bind like any other
        kind, recv = "function", None
        if owner is not None:
            if "staticmethod" in deco:
                kind = "staticmethod"
            else:
                if not names:
                    return
                kind = "classmethod" if "classmethod" in deco else "property" if "property" in deco else "method"
                recv, names = names[0], names[1:]
        names = names + kwonly_names
        body = _body(fn)
        if any(isinstance(n, (ast.Yield, ast.YieldFrom, ast.Await, ast.Global, ast.Nonlocal, ast.FunctionDef, ast.ClassDef)) for s in body for n in ast.walk(s)):
            return
        # not recursive
        if any(isinstance(n, ast.Call) and ((isinstance(n.func, ast.Attribute) and n.func.attr == fn.name) or (isinstance(n.func, ast.Name) and n.func.id == fn.name)) for s in body for n in ast.walk(s)):
            return
        body = [_FreshenComprehensions(counter).visit(copy.deepcopy(s)) for s in body]
        # parameters must not be re-bound in the helper (e.g. a loop stepping `relation = relation.target`)
        stored = {n.id for s in body for n in ast.walk(s) if isinstance(n, ast.Name) and isinstance(n.ctx, ast.Store)}
        for s in body:
            for n in ast.walk(s):
                if isinstance(n, (ast.MatchAs, ast.MatchStar)) and n.name:
                    stored.add(n.name)
                elif isinstance(n, ast.MatchMapping) and n.rest:
                    stored.add(n.rest)
        if recv and recv in stored:
            return
        tree_ = _to_tree(body)
        if tree_ is None or not _ends_closed(tree_):
            return
        h = Helper(fn, kind, recv, names, tree_, _as_expression(tree_), owner, rel)
        # parameters the helper re-binds are locals initialised from the argument
        h.rebound = stored & set(names)
        if h.rebound and h.expr is not None:
            return
        if owner is None:
            pkg.functions[(rel, fn.name)] = h
        else:
            if kind == "property":
                if h.expr is None:
                    return
                pkg.properties.setdefault(fn.name, []).append(h)
            pkg.methods[(rel, owner, fn.name)] = h

    for rel, tree in pkg.trees.items():
        for node in tree.body:
            if isinstance(node, ast.FunctionDef):
                consider(rel, node, None)
            elif isinstance(node, ast.ClassDef):
                for s in node.body:
                    if isinstance(s, ast.FunctionDef):
                        consider(rel, s, node.name)


def _rename_locals(stmts: list[ast.stmt], params: set[str], suffix: str) -> list[ast.stmt]:
    stmts = [copy.deepcopy(s) for s in stmts]
    stored = {n.id for s in stmts for n in ast.walk(s) if isinstance(n, ast.Name) and isinstance(n.ctx, ast.Store)}
    for s in stmts:
        for n in ast.walk(s):
            if isinstance(n, (ast.MatchAs, ast.MatchStar)) and n.name:
                stored.add(n.name)
            elif isinstance(n, ast.MatchMapping) and n.rest:
                stored.add(n.rest)
    stored -= params

    class R(ast.NodeTransformer):
        def visit_Name(self, node):
            if node.id in stored:
                return ast.copy_location(ast.Name(f"{node.id}{suffix}", node.ctx), node)
            return node

        def visit_MatchAs(self, node):
            self.generic_visit(node)
            if node.name in stored:
                node.name = f"{node.name}{suffix}"
            return node

        def visit_MatchStar(self, node):
            if node.name in stored:
                node.name = f"{node.name}{suffix}"
            return node

        def visit_MatchMapping(self, node):
            self.generic_visit(node)
            if node.rest in stored:
                node.rest = f"{node.rest}{suffix}"
            return node

    return [R().visit(s) for s in stmts]


class _Inliner(ast.NodeTransformer):
    def __init__(self, pkg: _Package, rel: str, owner: str | None, counter: list[int], in_classmethod: bool = False):
        self.pkg, self.rel, self.owner, self.counter = pkg, rel, owner, counter
        self.cls_key = (rel, owner) if owner else None
        self.changed = 0

    # ---- resolution
    def _resolve(self, call: ast.Call) -> tuple[Helper, dict[str, ast.expr]] | None:
        """The helper a call denotes and the substitution for its receiver, if it can be told from the syntax."""
        f = call.func
        if any(k.arg is None for k in call.keywords) or any(isinstance(a, ast.Starred) for a in call.args):
            return None
        h, recv_map = None, {}
        if isinstance(f, ast.Attribute) and isinstance(f.value, ast.Name):
            base = f.value.id
            if base in ("self", "cls") and self.cls_key is not None:
                h = self.pkg.method(self.cls_key, f.attr)
                if h is not None and h.kind == "property":
                    return None
                if h is not None and h.recv is not None:
                    if h.kind == "classmethod" and base == "self":
                        recv_map[h.recv] = ast.Call(func=ast.Name("type", ast.Load()), args=[ast.Name("self", ast.Load())], keywords=[])
                    elif h.kind == "method" and base == "cls":
                        return None
                    else:
                        recv_map[h.recv] = ast.Name(base, ast.Load())
            else:
                ck = self.pkg.resolve_class(self.rel, base)
                if ck is not None:
                    h = self.pkg.method(ck, f.attr)
                    if h is not None and h.kind not in ("classmethod", "staticmethod"):
                        return None
                    if h is not None and h.recv is not None:
                        recv_map[h.recv] = ast.Name(base, ast.Load())
                else:
                    # `operation._new_helper(...)` on a local: when exactly one class of the package defines a member of
                    # that name and it is a new helper method, the call can only mean that method
                    cands = [hh for (_r, _o, nme), hh in self.pkg.methods.items() if nme == f.attr]
                    if len(cands) == 1 and self.pkg.attr_names.get(f.attr, 0) == 1 and cands[0].kind == "method" and cands[0].recv is not None and f.attr.startswith("_"):
                        h = cands[0]
                        recv_map[h.recv] = ast.Name(base, ast.Load())
        elif isinstance(f, ast.Name):
            h = self.pkg.function(self.rel, f.id)
        if h is None or len(call.args) + len(call.keywords) != len(h.params):
            return None
        mapping: dict[str, ast.expr] = dict(recv_map)
        for p, a in zip(h.params, call.args):
            mapping[p] = a
        for k in call.keywords:
            if k.arg not in h.params or k.arg in mapping:
                return None
            mapping[k.arg] = k.value
        if set(mapping) != set(h.params) | set(recv_map):
            return None
        return h, mapping

    # ---- expression-level
    def visit_Call(self, node):
        self.generic_visit(node)
        r = self._resolve(node)
        if r is None or r[0].expr is None:
            return node
        h, mapping = r
        uses = {p: sum(1 for n in ast.walk(h.expr) if isinstance(n, ast.Name) and n.id == p) for p in mapping}
        # an argument with effects may only be substituted if the parameter is used exactly once
        if any(not _pure_arg(a) and uses.get(p, 0) != 1 for p, a in mapping.items()):
            return node
        self.changed += 1
        new = _Subst(mapping).visit(copy.deepcopy(h.expr))
        return ast.copy_location(new, node)

    def visit_Attribute(self, node):
        self.generic_visit(node)
        if not isinstance(node.ctx, ast.Load):
            return node
        cands = self.pkg.properties.get(node.attr)
        if not cands:
            return node
        h = None
        if isinstance(node.value, ast.Name) and node.value.id == "self" and self.cls_key is not None:
            m = self.pkg.method(self.cls_key, node.attr)
            if m is not None and m.kind == "property":
                h = m
        if h is None and len(cands) == 1 and self.pkg.attr_names.get(node.attr, 0) == 1 and node.attr not in self.pkg.base_attrs and _pure_arg(node.value):
            # `<expr>.<new property>`: the name denotes that one property everywhere in the package
            if not (isinstance(node.value, ast.Name) and node.value.id == "self" and self.cls_key is not None and self.pkg.method(self.cls_key, node.attr) is None and False):
                h = cands[0]
        if h is None or h.expr is None or not _pure_arg(node.value):
            return node
        self.changed += 1
        new = _Subst({h.recv: node.value}).visit(copy.deepcopy(h.expr))
        return ast.copy_location(new, node)

    # ---- statement-level
    def _inline_stmt(self, call: ast.Call, on_return, tail: bool = False) -> list[ast.stmt] | None:
        r = self._resolve(call)
        if r is None or r[0].expr is not None:
            return None
        h, mapping = r
        self.counter[0] += 1
        suffix = f"__h{self.counter[0]}"
        pre: list[ast.stmt] = []
        subst: dict[str, ast.expr] = {}
        direct: dict[str, str] = {}
        for p, a in mapping.items():
            if p in h.rebound and tail and isinstance(a, ast.Name):
                # tail call: nothing after it reads the caller's variable, so the helper's re-binding may act on it
                direct[p] = a.id
            elif p in h.rebound:
                # becomes a renamed local of the inlined body, initialised from the argument
                pre.append(ast.copy_location(ast.Assign(targets=[ast.Name(f"{p}{suffix}", ast.Store())], value=a, lineno=call.lineno), call))
            elif _pure_arg(a) or (isinstance(a, ast.Call) and isinstance(a.func, ast.Name) and a.func.id == "type"):
                subst[p] = a
            else:
                tmp = f"{p}{suffix}"
                pre.append(ast.copy_location(ast.Assign(targets=[ast.Name(tmp, ast.Store())], value=a, lineno=call.lineno), call))
                subst[p] = ast.Name(tmp, ast.Load())
        body = _rename_locals(h.tree, (set(mapping) - h.rebound) | set(direct), suffix)
        if direct:

            class D(ast.NodeTransformer):
                def visit_Name(self, node):
                    if node.id in direct:
                        return ast.copy_location(ast.Name(direct[node.id], node.ctx), node)
                    return node

            body = [D().visit(s) for s in body]
        body = [_Subst(subst).visit(s) for s in body]

        def fix(stmts: list[ast.stmt]) -> list[ast.stmt]:
            out = []
            for s in stmts:
                if isinstance(s, ast.Return):
                    out.extend(on_return(s))
                elif isinstance(s, ast.If):
                    s.body = fix(s.body) or [ast.copy_location(ast.Pass(), s)]
                    s.orelse = fix(s.orelse)
                    out.append(s)
                elif isinstance(s, ast.Match):
                    for c in s.cases:
                        c.body = fix(c.body) or [ast.copy_location(ast.Pass(), s)]
                    out.append(s)
                else:
                    out.append(s)
            return out

        self.changed += 1
        res = pre + fix(body)
        for s in res:
            ast.fix_missing_locations(ast.copy_location(s, call) if not hasattr(s, "lineno") else s)
        return res

    # ---- hoisting a nested statement-helper call out of a simple statement
    def _hoistable(self, root: ast.expr) -> ast.Call | None:
        """A statement-helper call nested in ``root`` that is evaluated unconditionally and before anything with
        effects, so that ``tmp = call; ...tmp...`` is the same computation."""

        def pure(e) -> bool:
            return _pure_arg(e) if isinstance(e, ast.expr) else True

        def find(e: ast.expr) -> tuple[ast.Call | None, bool]:
            """(call found, everything evaluated so far is pure)"""
            if isinstance(e, ast.Call):
                r = self._resolve(e)
                if r is not None and r[0].expr is None and e is not root:
                    # its own arguments are evaluated before it, whatever they are: they move with it
                    return e, True
            if pure(e):
                return None, True
            kids: list[ast.expr] = []
            if isinstance(e, ast.Call):
                kids = [e.func] + list(e.args) + [k.value for k in e.keywords]
            elif isinstance(e, ast.Attribute):
                kids = [e.value]
            elif isinstance(e, ast.Subscript):
                kids = [e.value, e.slice]
            elif isinstance(e, ast.BinOp):
                kids = [e.left, e.right]
            elif isinstance(e, ast.UnaryOp):
                kids = [e.operand]
            elif isinstance(e, ast.Compare):
                kids = [e.left, e.comparators[0]]
            elif isinstance(e, (ast.Tuple, ast.List, ast.Set)):
                kids = list(e.elts)
            elif isinstance(e, ast.Starred):
                kids = [e.value]
            elif isinstance(e, ast.BoolOp):
                kids = [e.values[0]]
            elif isinstance(e, ast.IfExp):
                kids = [e.test]
            elif isinstance(e, ast.NamedExpr):
                kids = [e.value]
            else:
                return None, False
            for k in kids:
                c, ok = find(k)
                if c is not None:
                    return c, True
                if not ok:
                    return None, False
            # all evaluated children pure, but the node itself (a call, an operator) may have effects
            return None, False

        c, _ = find(root)
        return c

    def _hoist(self, s: ast.stmt) -> list[ast.stmt] | None:
        value = getattr(s, "value", None)
        if not isinstance(s, (ast.Return, ast.Assign, ast.AnnAssign, ast.Expr)) or value is None:
            return None
        call = self._hoistable(value)
        if call is None:
            return None
        self.counter[0] += 1
        tmp = f"hoisted__h{self.counter[0]}"

        class R(ast.NodeTransformer):
            def visit_Call(self, node):
                if node is call:
                    return ast.copy_location(ast.Name(tmp, ast.Load()), node)
                self.generic_visit(node)
                return node

        assign = ast.copy_location(ast.Assign(targets=[ast.Name(tmp, ast.Store())], value=call, lineno=s.lineno), s)
        s.value = R().visit(value)
        ast.fix_missing_locations(assign)
        return [assign, s]

    def _visit_block(self, stmts: list[ast.stmt]) -> list[ast.stmt]:
        hoisted: list[ast.stmt] = []
        for s in stmts:
            h = self._hoist(s)
            hoisted.extend(h if h is not None else [s])
        stmts = hoisted
        out: list[ast.stmt] = []
        for s in stmts:
            rep = None
            if isinstance(s, ast.Return) and isinstance(s.value, ast.Call):
                rep = self._inline_stmt(s.value, lambda r: [r], tail=True)
            elif isinstance(s, ast.Assign) and len(s.targets) == 1 and isinstance(s.value, ast.Call):
                tgt = s.targets[0]
                rep = self._inline_stmt(
                    s.value,
                    lambda r, tgt=tgt, s=s: [ast.copy_location(ast.Assign(targets=[copy.deepcopy(tgt)], value=r.value or ast.Constant(None), lineno=s.lineno), s)],
                )
            elif isinstance(s, ast.AnnAssign) and s.value is not None and isinstance(s.value, ast.Call) and isinstance(s.target, ast.Name):
                tgt = s.target
                rep = self._inline_stmt(
                    s.value,
                    lambda r, tgt=tgt, s=s: [ast.copy_location(ast.Assign(targets=[copy.deepcopy(tgt)], value=r.value or ast.Constant(None), lineno=s.lineno), s)],
                )
            elif isinstance(s, ast.Expr) and isinstance(s.value, ast.Call):

                def drop(r, s=s):
                    v = r.value
                    if v is None or isinstance(v, (ast.Constant, ast.Name)):
                        return []
                    return [ast.copy_location(ast.Expr(value=v), s)]

                rep = self._inline_stmt(s.value, drop)
            if rep is not None:
                out.extend(rep)
            else:
                out.append(s)
        return out

    def visit_FunctionDef(self, node):
        self.generic_visit(node)
        node.body = self._visit_block(node.body)
        return node

    def generic_visit(self, node):
        super().generic_visit(node)
        for field in ("body", "orelse", "finalbody"):
            v = getattr(node, field, None)
            if isinstance(v, list) and v and isinstance(v[0], ast.stmt) and not isinstance(node, (ast.FunctionDef, ast.ClassDef, ast.Module)):
                setattr(node, field, self._visit_block(v))
        if isinstance(node, ast.Match):
            for c in node.cases:
                c.body = self._visit_block(c.body)
        return node


def normalize_package(trees: dict[str, ast.Module]) -> int:
    """Inline helpers that are not in the baseline, package-wide.  Returns the number of call sites rewritten."""
    counter = [0]
    pkg = _Package(trees)
    _collect_helpers(pkg, counter)
    if not pkg.methods and not pkg.functions:
        return 0
    helper_nodes = {id(h.fn) for h in list(pkg.methods.values()) + list(pkg.functions.values())}
    total = 0
    for _ in range(4):  # helpers may call other new helpers: inline inside helper bodies first
        changed = 0
        for h in list(pkg.methods.values()) + list(pkg.functions.values()):
            inl = _Inliner(pkg, h.module, h.owner, counter)
            h.tree = inl._visit_block([inl.visit(s) for s in h.tree])
            if inl.changed:
                changed += inl.changed
                tree_ = _to_tree(h.tree)
                if tree_ is not None:
                    h.tree = tree_
                h.expr = _as_expression(h.tree)
        if not changed:
            break
    for rel, tree in trees.items():
        for node in tree.body:
            if isinstance(node, ast.ClassDef):
                inl = _Inliner(pkg, rel, node.name, counter)
                for i, s in enumerate(node.body):
                    if isinstance(s, ast.FunctionDef) and id(s) not in helper_nodes:
                        node.body[i] = inl.visit(s)
                total += inl.changed
            elif isinstance(node, ast.FunctionDef) and id(node) not in helper_nodes:
                inl = _Inliner(pkg, rel, None, counter)
                idx = tree.body.index(node)
                tree.body[idx] = inl.visit(node)
                total += inl.changed
        ast.fix_missing_locations(tree)
    _drop_dead_helpers(pkg)
    return total


def _drop_dead_helpers(pkg: _Package) -> None:
    """A new helper all of whose uses were inlined is dead code in the model's copy: its body is analysed in the
    context of its callers, so who-may-call rules must not see it a second time as a free-standing function."""
    helpers = list(pkg.methods.values()) + list(pkg.functions.values())
    names = {h.fn.name for h in helpers}
    if not names:
        return
    refs: dict[str, int] = {n: 0 for n in names}
    for tree in pkg.trees.values():
        for n in ast.walk(tree):
            if isinstance(n, ast.Attribute) and n.attr in refs:
                refs[n.attr] += 1
            elif isinstance(n, ast.Name) and n.id in refs:
                refs[n.id] += 1
            elif isinstance(n, ast.alias) and n.name in refs:
                refs[n.name] += 1
            elif isinstance(n, ast.Constant) and isinstance(n.value, str) and n.value in refs:
                refs[n.value] += 1  # __all__, getattr
    for h in helpers:
        # references from inside other dead helpers do not count once those are gone; iterate to a fixed point below
        pass
    changed = True
    alive = {id(h.fn): h for h in helpers}
    while changed:
        changed = False
        for h in list(alive.values()):
            own = sum(1 for n in ast.walk(h.fn) if (isinstance(n, ast.Attribute) and n.attr == h.fn.name) or (isinstance(n, ast.Name) and n.id == h.fn.name))
            if refs[h.fn.name] - own > 0:
                continue
            container = pkg.classes[(h.module, h.owner)].body if h.owner else pkg.trees[h.module].body
            if h.fn in container:
                # discount what this helper's own body referenced
                for n in ast.walk(h.fn):
                    nm = n.attr if isinstance(n, ast.Attribute) else n.id if isinstance(n, ast.Name) else None
                    if nm in refs and nm != h.fn.name:
                        refs[nm] -= 1
                container.remove(h.fn)
                if not container:
                    container.append(ast.Pass())
                del alive[id(h.fn)]
                changed = True


# ------------------------------------------------------------------------------------------------------------------
# N3: isinstance chains over the closed hierarchies  ->  match statements
#
# ``if isinstance(x, A): ... elif isinstance(x, (B, C)) and g: ... else: ...`` is exactly
# ``match x: case A(): ... case B() | C() if g: ... case _: ...`` for the package's dataclass hierarchies (a class
# pattern without sub-patterns is an isinstance test).  Consecutive ``if isinstance(x, K): <...return/raise>``
# statements are one dispatch as well.  Rules are written against the ``match`` form; converting keeps them
# applicable when a dispatcher is (re)written with isinstance.


def closed_class_names(trees: dict[str, ast.Module]) -> set[str]:
    bases: dict[str, list[str]] = {}
    roots: set[str] = set()
    for tree in trees.values():
        for n in ast.walk(tree):
            if isinstance(n, ast.ClassDef):
                bs = []
                for b in n.bases:
                    e = b.value if isinstance(b, ast.Subscript) else b
                    if isinstance(e, ast.Name):
                        bs.append(e.id)
                    elif isinstance(e, ast.Attribute):
                        bs.append(e.attr)
                bases.setdefault(n.name, []).extend(bs)
                if any(isinstance(s, ast.FunctionDef) and s.name == "__init_subclass__" for s in n.body):
                    roots.add(n.name)
    out = set(roots)
    changed = True
    while changed:
        changed = False
        for c, bs in bases.items():
            if c not in out and any(b in out for b in bs):
                out.add(c)
                changed = True
    return out


def _pure_subject(e: ast.expr) -> bool:
    while isinstance(e, ast.Attribute):
        e = e.value
    return isinstance(e, ast.Name)


def _class_names(t: ast.expr) -> list[ast.expr] | None:
    if isinstance(t, (ast.Name, ast.Attribute)):
        return [t]
    if isinstance(t, ast.Tuple) and t.elts and all(isinstance(x, (ast.Name, ast.Attribute)) for x in t.elts):
        return list(t.elts)
    return None


def _split_test(test: ast.expr):
    """(subject, class exprs, extra guard conjuncts) if the test starts with isinstance(subject, classes)."""
    conj = list(test.values) if isinstance(test, ast.BoolOp) and isinstance(test.op, ast.And) else [test]
    first = conj[0]
    if not (isinstance(first, ast.Call) and isinstance(first.func, ast.Name) and first.func.id == "isinstance" and len(first.args) == 2 and not first.keywords):
        return None
    subj, classes = first.args[0], _class_names(first.args[1])
    if classes is None or not _pure_subject(subj):
        return None
    return subj, classes, conj[1:]


def _last_name(e: ast.expr) -> str:
    return e.attr if isinstance(e, ast.Attribute) else e.id  # type: ignore[union-attr]


class _IsinstanceToMatch(ast.NodeTransformer):
    def __init__(self, closed: set[str]):
        self.closed = closed
        self.changed = 0

    def _arm(self, test: ast.expr, body: list[ast.stmt], subject_src: str | None):
        sp = _split_test(test)
        if sp is None:
            return None
        subj, classes, rest = sp
        if subject_src is not None and ast.unparse(subj) != subject_src:
            return None
        if not all(_last_name(c) in self.closed for c in classes):
            return None
        # guard conjuncts of the form isinstance(<subject>.<field>, K) become keyword sub-patterns
        kw_attrs: list[str] = []
        kw_pats: list[ast.pattern] = []
        remaining: list[ast.expr] = []
        for g in rest:
            sub = _split_test(g)
            if (
                sub is not None
                and not sub[2]
                and isinstance(sub[0], ast.Attribute)
                and ast.unparse(sub[0].value) == ast.unparse(subj)
                and len(classes) == 1
                and all(_last_name(c) in self.closed for c in sub[1])
                and not remaining
            ):
                pats = [ast.MatchClass(cls=c, patterns=[], kwd_attrs=[], kwd_patterns=[]) for c in sub[1]]
                kw_attrs.append(sub[0].attr)
                kw_pats.append(pats[0] if len(pats) == 1 else ast.MatchOr(patterns=pats))
            else:
                remaining.append(g)
        pats = [ast.MatchClass(cls=c, patterns=[], kwd_attrs=list(kw_attrs), kwd_patterns=list(kw_pats)) for c in classes]
        pattern = pats[0] if len(pats) == 1 else ast.MatchOr(patterns=pats)
        guard = None
        if remaining:
            guard = remaining[0] if len(remaining) == 1 else ast.BoolOp(op=ast.And(), values=remaining)
        return subj, ast.match_case(pattern=pattern, guard=guard, body=body)

    def _chain(self, node: ast.If):
        """Collect the arms of an if/elif chain; None unless every test is isinstance(<same subject>, closed classes)."""
        arms = []
        subject = None
        cur: ast.stmt | None = node
        orelse: list[ast.stmt] = []
        while isinstance(cur, ast.If):
            r = self._arm(cur.test, cur.body, ast.unparse(subject) if subject is not None else None)
            if r is None:
                if not arms:
                    return None
                orelse = [cur]
                break
            subj, case = r
            subject = subject or subj
            arms.append(case)
            if len(cur.orelse) == 1 and isinstance(cur.orelse[0], ast.If):
                cur = cur.orelse[0]
            else:
                orelse = cur.orelse
                cur = None
        return subject, arms, orelse

    def _positive(self, stmts: list[ast.stmt]) -> list[ast.stmt]:
        """``if not isinstance(s, K): <closed>`` followed by more statements  ->  ``if isinstance(s, K): <rest> else: <closed>``."""
        for i, s in enumerate(stmts):
            if (
                isinstance(s, ast.If)
                and not s.orelse
                and isinstance(s.test, ast.UnaryOp)
                and isinstance(s.test.op, ast.Not)
                and i + 1 < len(stmts)
                and _ends_closed(s.body)
                and self._arm(s.test.operand, s.body, None) is not None
                and not self._arm(s.test.operand, s.body, None)[1].guard  # type: ignore[index]
            ):
                rest = self._positive(stmts[i + 1 :])
                self._made_positive = True
                new = ast.copy_location(ast.If(test=s.test.operand, body=rest, orelse=s.body), s)
                return stmts[:i] + [new]
        return stmts

    def _block(self, stmts: list[ast.stmt]) -> list[ast.stmt]:
        stmts = self._positive(stmts)
        out: list[ast.stmt] = []
        i = 0
        while i < len(stmts):
            s = stmts[i]
            if isinstance(s, ast.If):
                ch = self._chain(s)
                if ch is not None:
                    subject, arms, orelse = ch
                    j = i + 1
                    # consecutive closed `if isinstance(same subject, ...)` statements extend the dispatch
                    while (
                        not orelse
                        and all(_ends_closed(a.body) for a in arms)
                        and j < len(stmts)
                        and isinstance(stmts[j], ast.If)
                    ):
                        nxt = self._chain(stmts[j])  # type: ignore[arg-type]
                        if nxt is None or ast.unparse(nxt[0]) != ast.unparse(subject):
                            break
                        arms.extend(nxt[1])
                        orelse = nxt[2]
                        j += 1
                    if orelse:
                        arms.append(ast.match_case(pattern=ast.MatchAs(pattern=None, name=None), guard=None, body=orelse))
                    if getattr(self, "_made_positive", False):
                        # arms built from a re-arranged guard clause hold statements this pass has not seen yet
                        for a in arms:
                            a.body = self._block(a.body)
                    m = ast.copy_location(ast.Match(subject=subject, cases=arms), s)
                    self.changed += 1
                    out.append(m)
                    i = j
                    continue
                # not a class dispatch at this level: an `elif` tail may still be one
                if len(s.orelse) == 1 and isinstance(s.orelse[0], ast.If):
                    s.orelse = self._block(s.orelse)
            out.append(s)
            i += 1
        return out

    def generic_visit(self, node):
        super().generic_visit(node)
        for field in ("body", "orelse", "finalbody"):
            v = getattr(node, field, None)
            if isinstance(v, list) and v and isinstance(v[0], ast.stmt):
                if field == "orelse" and isinstance(node, ast.If) and len(v) == 1 and isinstance(v[0], ast.If):
                    continue  # an `elif`: the chain is converted as a whole from its first `if`
                setattr(node, field, self._block(v))
        if isinstance(node, ast.Match):
            for c in node.cases:
                c.body = self._block(c.body)
        return node


def isinstance_to_match(tree: ast.Module, closed: set[str]) -> int:
    t = _IsinstanceToMatch(closed)
    t.visit(tree)
    ast.fix_missing_locations(tree)
    return t.changed


# ------------------------------------------------------------------------------------------------------------------
# N4: leading attribute aliases of a case arm  ->  keyword captures
#
# ``case K(): a = subject.x; b = subject.y; ...`` binds exactly what ``case K(x=a, y=b): ...`` binds (a class pattern
# keyword is an attribute lookup on the subject).  The package itself writes the capture form and the rules resolve
# names through captures, so arms written with explicit aliases (typically after "extract method") are put back.


class _AliasesToCaptures(ast.NodeTransformer):
    def __init__(self):
        self.changed = 0

    def visit_Match(self, node: ast.Match):
        self.generic_visit(node)
        if not _pure_subject(node.subject):
            return node
        subj = ast.unparse(node.subject)
        for c in node.cases:
            pat = c.pattern
            if isinstance(pat, ast.MatchAs) and isinstance(pat.pattern, ast.MatchClass):
                pat = pat.pattern
            if not isinstance(pat, ast.MatchClass) or pat.patterns:
                continue
            captured = {n.name for n in ast.walk(c.pattern) if isinstance(n, (ast.MatchAs, ast.MatchStar)) and n.name}
            guard_names = {n.id for n in ast.walk(c.guard) if isinstance(n, ast.Name)} if c.guard is not None else set()
            moved = 0
            for s in list(c.body):
                tgt = val = None
                if isinstance(s, ast.Assign) and len(s.targets) == 1 and isinstance(s.targets[0], ast.Name):
                    tgt, val = s.targets[0].id, s.value
                elif isinstance(s, ast.AnnAssign) and isinstance(s.target, ast.Name) and s.value is not None:
                    tgt, val = s.target.id, s.value
                if (
                    tgt is None
                    or not isinstance(val, ast.Attribute)
                    or ast.unparse(val.value) != subj
                    or val.attr in pat.kwd_attrs
                    or tgt in captured
                    or tgt in guard_names
                    or tgt == subj
                    or len(c.body) <= 1
                ):
                    break
                pat.kwd_attrs.append(val.attr)
                pat.kwd_patterns.append(ast.MatchAs(pattern=None, name=tgt))
                captured.add(tgt)
                c.body.remove(s)
                moved += 1
            self.changed += moved
        return node


def aliases_to_captures(tree: ast.Module) -> int:
    t = _AliasesToCaptures()
    t.visit(tree)
    ast.fix_missing_locations(tree)
    return t.changed


# ------------------------------------------------------------------------------------------------------------------
# N5: accumulator loops  ->  comprehensions
#
# ``acc = {}`` / ``for T in IT: [tmp = e]* acc[K] = V``  is  ``acc = {K: V for T in IT}``; likewise ``[]``+``append``
# and ``set()``+``add``, each optionally under one ``if``.  The package writes the comprehension form.


def _empty_container(e: ast.expr) -> str | None:
    if isinstance(e, ast.Dict) and not e.keys:
        return "dict"
    if isinstance(e, ast.List) and not e.elts:
        return "list"
    if isinstance(e, ast.Call) and isinstance(e.func, ast.Name) and not e.args and not e.keywords and e.func.id in ("dict", "list", "set"):
        return e.func.id
    return None


class _LoopsToComprehensions(ast.NodeTransformer):
    def __init__(self):
        self.changed = 0

    def _try(self, init: ast.stmt, loop: ast.stmt) -> ast.stmt | None:
        name = kind = None
        if isinstance(init, ast.Assign) and len(init.targets) == 1 and isinstance(init.targets[0], ast.Name):
            name, kind = init.targets[0].id, _empty_container(init.value)
        elif isinstance(init, ast.AnnAssign) and isinstance(init.target, ast.Name) and init.value is not None:
            name, kind = init.target.id, _empty_container(init.value)
        if name is None or kind is None or not isinstance(loop, ast.For) or loop.orelse:
            return None
        body = list(loop.body)
        conds: list[ast.expr] = []
        if len(body) == 1 and isinstance(body[0], ast.If) and not body[0].orelse:
            conds.append(body[0].test)
            body = list(body[0].body)
        temps: dict[str, ast.expr] = {}
        for s in body[:-1]:
            if isinstance(s, ast.Assign) and len(s.targets) == 1 and isinstance(s.targets[0], ast.Name) and s.targets[0].id not in temps:
                temps[s.targets[0].id] = _Subst(temps).visit(copy.deepcopy(s.value))
            else:
                return None
        if not body:
            return None
        last = body[-1]
        comp: ast.expr | None = None
        gen_names = {n.id for n in ast.walk(loop.target) if isinstance(n, ast.Name)}
        if name in gen_names or name in {n.id for n in ast.walk(loop.iter) if isinstance(n, ast.Name)}:
            return None

        def mentions_acc(e: ast.AST) -> bool:
            return any(isinstance(n, ast.Name) and n.id == name for n in ast.walk(e))

        sub = _Subst(temps)
        if (
            kind == "dict"
            and isinstance(last, ast.Assign)
            and len(last.targets) == 1
            and isinstance(last.targets[0], ast.Subscript)
            and isinstance(last.targets[0].value, ast.Name)
            and last.targets[0].value.id == name
        ):
            k, v = sub.visit(copy.deepcopy(last.targets[0].slice)), sub.visit(copy.deepcopy(last.value))
            if mentions_acc(k) or mentions_acc(v):
                return None
            comp = ast.DictComp(key=k, value=v, generators=[ast.comprehension(target=loop.target, iter=loop.iter, ifs=conds, is_async=0)])
        elif (
            isinstance(last, ast.Expr)
            and isinstance(last.value, ast.Call)
            and isinstance(last.value.func, ast.Attribute)
            and isinstance(last.value.func.value, ast.Name)
            and last.value.func.value.id == name
            and len(last.value.args) == 1
            and not last.value.keywords
            and (kind, last.value.func.attr) in (("list", "append"), ("set", "add"))
        ):
            e = sub.visit(copy.deepcopy(last.value.args[0]))
            if mentions_acc(e):
                return None
            gens = [ast.comprehension(target=loop.target, iter=loop.iter, ifs=conds, is_async=0)]
            comp = ast.ListComp(elt=e, generators=gens) if kind == "list" else ast.SetComp(elt=e, generators=gens)
        if comp is None or any(mentions_acc(c) for c in conds) or any(mentions_acc(t) for t in temps.values()):
            return None
        new = ast.Assign(targets=[ast.Name(name, ast.Store())], value=comp, lineno=init.lineno)
        return ast.copy_location(new, init)

    def _block(self, stmts: list[ast.stmt]) -> list[ast.stmt]:
        out: list[ast.stmt] = []
        i = 0
        while i < len(stmts):
            if i + 1 < len(stmts):
                r = self._try(stmts[i], stmts[i + 1])
                if r is not None:
                    out.append(r)
                    self.changed += 1
                    i += 2
                    continue
            out.append(stmts[i])
            i += 1
        return out

    def generic_visit(self, node):
        super().generic_visit(node)
        for field in ("body", "orelse", "finalbody"):
            v = getattr(node, field, None)
            if isinstance(v, list) and v and isinstance(v[0], ast.stmt):
                setattr(node, field, self._block(v))
        if isinstance(node, ast.Match):
            for c in node.cases:
                c.body = self._block(c.body)
        return node


def loops_to_comprehensions(tree: ast.Module) -> int:
    t = _LoopsToComprehensions()
    t.visit(tree)
    ast.fix_missing_locations(tree)
    return t.changed


# ------------------------------------------------------------------------------------------------------------------
# N6: constructor calls of package dataclasses know their arguments by field name
#
# ``K(a, b)`` and ``K(x=a, y=b)`` build the same object.  Nothing is rewritten; every such call node gets a
# ``_by_field`` mapping (field name -> argument expression) that the accessors ``astutil.kw`` / ``arg_or_kw`` consult,
# so rules can ask for "the `operands` argument" however the call is spelled.


def _dataclass_decorator(c: ast.ClassDef) -> ast.expr | None:
    for d in c.decorator_list:
        e = d.func if isinstance(d, ast.Call) else d
        name = e.attr if isinstance(e, ast.Attribute) else e.id if isinstance(e, ast.Name) else ""
        if name == "dataclass":
            return d
    return None


def _init_fields(pkg: _Package, key: tuple[str, str]) -> list[tuple[str, bool]] | None:
    """(field name, keyword-only) in __init__ order, or None if the class is not a plain dataclass."""
    lineage = pkg.lineage(key)
    if not lineage or _dataclass_decorator(pkg.classes[key]) is None:
        return None
    order: list[str] = []
    kwonly: dict[str, bool] = {}
    for k in reversed(lineage):
        c = pkg.classes[k]
        if any(isinstance(s, ast.FunctionDef) and s.name == "__init__" for s in c.body):
            return None
        deco = _dataclass_decorator(c)
        if deco is None:
            continue
        cls_kw = isinstance(deco, ast.Call) and any(kk.arg == "kw_only" and isinstance(kk.value, ast.Constant) and kk.value.value is True for kk in deco.keywords)
        for s in c.body:
            if not (isinstance(s, ast.AnnAssign) and isinstance(s.target, ast.Name)):
                continue
            ann = ast.unparse(s.annotation)
            if "ClassVar" in ann:
                continue
            name = s.target.id
            init = True
            kwo = cls_kw
            v = s.value
            if isinstance(v, ast.Call) and (ast.unparse(v.func).split(".")[-1] == "field"):
                for kk in v.keywords:
                    if kk.arg == "init" and isinstance(kk.value, ast.Constant) and kk.value.value is False:
                        init = False
                    if kk.arg == "kw_only" and isinstance(kk.value, ast.Constant):
                        kwo = bool(kk.value.value)
            if not init:
                if name in order:
                    order.remove(name)
                continue
            if name not in order:
                order.append(name)
            kwonly[name] = kwo
    return [(n, kwonly[n]) for n in order]


def annotate_constructor_calls(trees: dict[str, ast.Module]) -> int:
    pkg = _Package(trees)
    cache: dict[tuple[str, str], list[tuple[str, bool]] | None] = {}
    n = 0
    for rel, tree in trees.items():
        for call in ast.walk(tree):
            if not isinstance(call, ast.Call):
                continue
            f = call.func
            if isinstance(f, ast.Subscript):
                f = f.value
            name = f.id if isinstance(f, ast.Name) else f.attr if isinstance(f, ast.Attribute) else None
            if not name or not name[:1].isupper():
                continue
            key = pkg.resolve_class(rel, name)
            if key is None:
                continue
            if key not in cache:
                cache[key] = _init_fields(pkg, key)
            fields = cache[key]
            if not fields or any(isinstance(a, ast.Starred) for a in call.args) or any(k.arg is None for k in call.keywords):
                continue
            positional = [nm for nm, kwo in fields if not kwo]
            if len(call.args) > len(positional):
                continue
            by: dict[str, ast.expr] = dict(zip(positional, call.args))
            ok = True
            for k in call.keywords:
                if k.arg in by or k.arg not in {nm for nm, _ in fields}:
                    ok = False
                    break
                by[k.arg] = k.value
            if ok:
                call._by_field = by  # type: ignore[attr-defined]
                call._field_order = [nm for nm, _ in fields]  # type: ignore[attr-defined]
                n += 1
                # canonical spelling: the leading run of positional fields positionally, the rest by keyword
                lead = []
                for nm in positional:
                    if nm in by:
                        lead.append(nm)
                    else:
                        break
                call.args = [by[nm] for nm in lead]
                call.keywords = [ast.keyword(arg=nm, value=by[nm]) for nm, _ in fields if nm in by and nm not in lead]
    return n


# ------------------------------------------------------------------------------------------------------------------
# N7: keyword arguments of calls to package functions -> positional where the callee's signature is unambiguous
#
# ``f(a, b)`` and ``f(x=a, y=b)`` are the same call.  A call is rewritten only when every function or method of that
# name defined in the package has the same parameter list (no *args/**kwargs) - then the name identifies the signature
# without knowing the receiver's type.  The leading run of parameters is made positional, the rest stay keywords.


def _signatures(trees: dict[str, ast.Module]) -> dict[str, list[str] | None]:
    sigs: dict[str, list[str] | None] = {}
    for tree in trees.values():
        for cls in [None] + [n for n in ast.walk(tree) if isinstance(n, ast.ClassDef)]:
            body = tree.body if cls is None else cls.body
            for fn in body:
                if not isinstance(fn, (ast.FunctionDef, ast.AsyncFunctionDef)):
                    continue
                a = fn.args
                deco = {d.id for d in fn.decorator_list if isinstance(d, ast.Name)}
                if a.vararg or a.kwarg or a.posonlyargs:
                    params = None
                else:
                    names = [x.arg for x in a.args]
                    if cls is not None and "staticmethod" not in deco and names:
                        names = names[1:]
                    params = names + ["*"] + [x.arg for x in a.kwonlyargs] if a.kwonlyargs else names
                if fn.name in sigs and sigs[fn.name] != params:
                    sigs[fn.name] = None
                elif fn.name not in sigs:
                    sigs[fn.name] = params
                if cls is not None:
                    # `Class.method(...)` names its callee even when the bare method name is ambiguous
                    q = f"{cls.name}.{fn.name}"
                    if params is not None and "classmethod" not in deco and "staticmethod" not in deco:
                        qparams = None  # reached through the class, a plain method still wants its instance
                    else:
                        qparams = params
                    sigs[q] = qparams if q not in sigs or sigs[q] == qparams else None
    return sigs


_FOREIGN = {"get", "pop", "update", "join", "format", "index", "count", "sort", "sorted", "replace", "copy", "items", "keys", "values", "append", "extend", "add", "where", "select_from", "order_by", "limit", "offset", "distinct", "subquery", "union", "union_all", "literal", "between", "cast", "field", "dataclass"}


def _call_params(call: ast.Call, sigs) -> tuple[str, list[str], dict[str, ast.expr]] | None:
    """(callee name, its parameter list, argument by parameter) for a call whose callee name has one signature."""
    if getattr(call, "_by_field", None) is not None:
        return None
    f = call.func
    name = f.attr if isinstance(f, ast.Attribute) else f.id if isinstance(f, ast.Name) else None
    if not name or name in _FOREIGN or name.startswith("__"):
        return None
    params = sigs.get(name)
    if not params and isinstance(f, ast.Attribute) and isinstance(f.value, ast.Name) and sigs.get(f"{f.value.id}.{name}"):
        name = f"{f.value.id}.{name}"
        params = sigs[name]
    if not params or any(isinstance(a, ast.Starred) for a in call.args) or any(k.arg is None for k in call.keywords):
        return None
    pos_params = params[: params.index("*")] if "*" in params else params
    if len(call.args) > len(pos_params):
        return None
    by = dict(zip(pos_params, call.args))
    for k in call.keywords:
        if k.arg in by or k.arg not in params:
            return None
        by[k.arg] = k.value
    return name, params, by


def call_styles(trees: dict[str, ast.Module]) -> dict[str, str]:
    """"<callee>.<param>" -> 'pos' | 'kw' | 'mixed': how the tree passes each parameter (used to record the baseline)."""
    sigs = _signatures(trees)
    seen: dict[str, set[str]] = {}
    for tree in trees.values():
        for call in ast.walk(tree):
            if not isinstance(call, ast.Call):
                continue
            r = _call_params(call, sigs)
            if r is None:
                continue
            name, params, by = r
            kws = {k.arg for k in call.keywords}
            for p in by:
                seen.setdefault(f"{name}.{p}", set()).add("kw" if p in kws else "pos")
    return {k: (next(iter(v)) if len(v) == 1 else "mixed") for k, v in sorted(seen.items())}


_STYLES: dict[str, str] | None = None


def baseline_styles() -> dict[str, str]:
    global _STYLES
    if _STYLES is None:
        path = os.path.join(os.path.dirname(os.path.abspath(__file__)), "baseline_functions.json")
        try:
            with open(path, encoding="utf-8") as f:
                _STYLES = dict(json.load(f).get("call_styles", {}))
        except OSError:
            _STYLES = {}
    return _STYLES


def positional_calls(trees: dict[str, ast.Module]) -> int:
    """Spell every call of an unambiguously-signed package function the way the verified baseline spells it
    (parameter by parameter: positionally or by keyword), and let `astutil.kw` find arguments by parameter name."""
    sigs = _signatures(trees)
    styles = baseline_styles()
    n = 0
    for tree in trees.values():
        for call in ast.walk(tree):
            if not isinstance(call, ast.Call):
                continue
            r = _call_params(call, sigs)
            if r is None:
                continue
            name, params, by = r
            pos_params = params[: params.index("*")] if "*" in params else params
            cur_kw = {k.arg for k in call.keywords}
            lead = []
            for p in pos_params:
                if p not in by:
                    break
                want = styles.get(f"{name}.{p}")
                if want == "kw" or (want not in ("pos",) and p in cur_kw):
                    break
                lead.append(p)
            new_args = [by[p] for p in lead]
            new_kws = [ast.keyword(arg=p, value=by[p]) for p in params if p != "*" and p in by and p not in lead]
            if [id(a) for a in new_args] != [id(a) for a in call.args] or len(new_kws) != len(call.keywords):
                n += 1
            call.args, call.keywords = new_args, new_kws
            call._by_param = by  # type: ignore[attr-defined]
    return n


# ------------------------------------------------------------------------------------------------------------------
# N8: literals on the right of a comparison (``None is x`` -> ``x is None``, ``0 == n`` -> ``n == 0``, ``1 <= n`` -> ``n >= 1``)


class _LiteralsRight(ast.NodeTransformer):
    FLIP = {ast.Lt: ast.Gt, ast.Gt: ast.Lt, ast.LtE: ast.GtE, ast.GtE: ast.LtE, ast.Eq: ast.Eq, ast.NotEq: ast.NotEq, ast.Is: ast.Is, ast.IsNot: ast.IsNot}

    def __init__(self):
        self.changed = 0

    def visit_Compare(self, node):
        self.generic_visit(node)
        if len(node.ops) == 1 and type(node.ops[0]) in self.FLIP and isinstance(node.left, ast.Constant) and not isinstance(node.comparators[0], ast.Constant):
            self.changed += 1
            return ast.copy_location(ast.Compare(left=node.comparators[0], ops=[self.FLIP[type(node.ops[0])]()], comparators=[node.left]), node)
        return node


def literals_right(tree: ast.Module) -> int:
    t = _LiteralsRight()
    t.visit(tree)
    ast.fix_missing_locations(tree)
    return t.changed


# ------------------------------------------------------------------------------------------------------------------
# N9: single-use temporaries that the verified baseline does not have are substituted back
#
# ``tmp = f(x)`` / ``return g(tmp)`` is ``return g(f(x))`` when ``tmp`` is bound once, read once - in the very next
# statement, before anything with effects is evaluated there - and nowhere else.  Only names that the same function
# did not have in the verified baseline (``baseline_functions.json: locals``) are touched, so the package's own locals,
# which the rules know, stay.


_LOCALS: dict[str, list[str]] | None = None


def baseline_locals() -> dict[str, list[str]]:
    global _LOCALS
    if _LOCALS is None:
        path = os.path.join(os.path.dirname(os.path.abspath(__file__)), "baseline_functions.json")
        try:
            with open(path, encoding="utf-8") as f:
                _LOCALS = dict(json.load(f).get("locals", {}))
        except OSError:
            _LOCALS = {}
    return _LOCALS


def function_locals(fn: ast.FunctionDef) -> set[str]:
    out = {a.arg for a in fn.args.posonlyargs + fn.args.args + fn.args.kwonlyargs}
    if fn.args.vararg:
        out.add(fn.args.vararg.arg)
    if fn.args.kwarg:
        out.add(fn.args.kwarg.arg)
    for n in ast.walk(fn):
        if isinstance(n, ast.Name) and isinstance(n.ctx, ast.Store):
            out.add(n.id)
        elif isinstance(n, (ast.MatchAs, ast.MatchStar)) and n.name:
            out.add(n.name)
        elif isinstance(n, ast.MatchMapping) and n.rest:
            out.add(n.rest)
    return out


def _first_use_is_safe(stmt: ast.stmt, name: str) -> bool:
    """`name` is read exactly once in `stmt`, unconditionally, and everything evaluated before that read is pure."""
    if not isinstance(stmt, (ast.Return, ast.Assign, ast.AnnAssign, ast.Expr, ast.AugAssign)):
        return False
    value = stmt.value
    if value is None:
        return False
    reads = [n for n in ast.walk(stmt) if isinstance(n, ast.Name) and n.id == name]
    if len(reads) != 1 or not isinstance(reads[0].ctx, ast.Load):
        return False
    if isinstance(stmt, ast.AugAssign):
        return False

    def walk(e: ast.expr) -> bool | None:
        """True: found with a pure prefix; False: something impure came first / conditional position; None: not here."""
        if isinstance(e, ast.Name):
            return True if e.id == name else None
        if isinstance(e, (ast.Constant,)):
            return None
        kids: list[ast.expr]
        if isinstance(e, ast.Call):
            kids = [e.func] + [a.value if isinstance(a, ast.Starred) else a for a in e.args] + [k.value for k in e.keywords]
        elif isinstance(e, ast.Attribute):
            kids = [e.value]
        elif isinstance(e, ast.Subscript):
            kids = [e.value, e.slice]
        elif isinstance(e, ast.BinOp):
            kids = [e.left, e.right]
        elif isinstance(e, ast.UnaryOp):
            kids = [e.operand]
        elif isinstance(e, ast.Compare):
            kids = [e.left] + list(e.comparators[:1])
        elif isinstance(e, (ast.Tuple, ast.List, ast.Set)):
            kids = [x.value if isinstance(x, ast.Starred) else x for x in e.elts]
        elif isinstance(e, ast.BoolOp):
            kids = [e.values[0]]
        elif isinstance(e, ast.IfExp):
            kids = [e.test]
        elif isinstance(e, ast.Slice):
            kids = [x for x in (e.lower, e.upper, e.step) if x is not None]
        elif isinstance(e, ast.JoinedStr):
            return False if any(isinstance(n, ast.Name) and n.id == name for n in ast.walk(e)) else None
        else:
            return False if any(isinstance(n, ast.Name) and n.id == name for n in ast.walk(e)) else None
        for k in kids:
            r = walk(k)
            if r is not None:
                return r
            if not _pure_arg(k):
                # an impure sibling is evaluated before what follows
                return False if any(isinstance(n, ast.Name) and n.id == name for kk in kids[kids.index(k) + 1 :] for n in ast.walk(kk)) else None
        # the name may be in a part of `e` that is evaluated conditionally / later (other BoolOp operands, IfExp arms)
        return False if any(isinstance(n, ast.Name) and n.id == name for n in ast.walk(e)) else None

    return walk(value) is True


class _InlineNewTemps:
    def __init__(self, keep: set[str]):
        self.keep = keep
        self.changed = 0

    def run(self, fn: ast.FunctionDef) -> None:
        stores: dict[str, int] = {}
        loads: dict[str, int] = {}
        for n in ast.walk(fn):
            if isinstance(n, ast.Name):
                d = stores if isinstance(n.ctx, ast.Store) else loads
                d[n.id] = d.get(n.id, 0) + 1
            elif isinstance(n, (ast.MatchAs, ast.MatchStar)) and n.name:
                stores[n.name] = stores.get(n.name, 0) + 1
        self.cands = {nm for nm, c in stores.items() if c == 1 and loads.get(nm, 0) == 1 and nm not in self.keep}
        # a new temp bound in several places (one per arm) is inlined when *every* binding is used once by the very
        # next statement: then no read can see another binding's value
        multi = {nm for nm, c in stores.items() if c > 1 and loads.get(nm, 0) == c and nm not in self.keep}
        if multi:
            self.pairs: dict[str, int] = {}
            self._count_only = True
            self.cands_all = multi
            self._walk(fn)
            self._count_only = False
            self.cands |= {nm for nm in multi if self.pairs.get(nm, 0) == stores[nm]}
        if self.cands:
            self._walk(fn)

    def _block(self, stmts: list[ast.stmt]) -> list[ast.stmt]:
        out: list[ast.stmt] = []
        i = 0
        while i < len(stmts):
            s = stmts[i]
            nm = None
            if isinstance(s, ast.Assign) and len(s.targets) == 1 and isinstance(s.targets[0], ast.Name):
                nm = s.targets[0].id
            elif isinstance(s, ast.AnnAssign) and isinstance(s.target, ast.Name) and s.value is not None:
                nm = s.target.id
            if getattr(self, "_count_only", False):
                if nm in self.cands_all and i + 1 < len(stmts) and not any(isinstance(n, (ast.Lambda, ast.ListComp, ast.SetComp, ast.DictComp, ast.GeneratorExp)) for n in ast.walk(stmts[i + 1])) and _first_use_is_safe(stmts[i + 1], nm):
                    self.pairs[nm] = self.pairs.get(nm, 0) + 1
                out.append(s)
                i += 1
                continue
            if nm in self.cands and i + 1 < len(stmts) and not any(isinstance(n, (ast.Lambda, ast.ListComp, ast.SetComp, ast.DictComp, ast.GeneratorExp)) for n in ast.walk(stmts[i + 1])) and _first_use_is_safe(stmts[i + 1], nm):
                nxt = stmts[i + 1]
                stmts[i + 1] = _Subst({nm: s.value}).visit(nxt)
                self.changed += 1
                i += 1
                continue
            out.append(s)
            i += 1
        return out

    def _walk(self, node) -> None:
        for field in ("body", "orelse", "finalbody"):
            v = getattr(node, field, None)
            if isinstance(v, list) and v and isinstance(v[0], ast.stmt):
                for x in v:
                    if not isinstance(x, (ast.FunctionDef, ast.ClassDef)):
                        self._walk(x)
                setattr(node, field, self._block(v))
        if isinstance(node, ast.Match):
            for c in node.cases:
                for x in c.body:
                    self._walk(x)
                c.body = self._block(c.body)


def _propagate_new_aliases(fn: ast.FunctionDef, keep: set[str]) -> int:
    """``x = p.a.b`` (a local the baseline does not have, bound once, to a call-free attribute chain of a name that
    is itself never re-bound) is replaced by ``p.a.b`` at every use: the package's frozen values make the chain
    denote the same object every time it is read."""
    stores: dict[str, int] = {}
    for n in ast.walk(fn):
        if isinstance(n, ast.Name) and isinstance(n.ctx, ast.Store):
            stores[n.id] = stores.get(n.id, 0) + 1
        elif isinstance(n, (ast.MatchAs, ast.MatchStar)) and n.name:
            stores[n.name] = stores.get(n.name, 0) + 1
        elif isinstance(n, ast.arg):
            stores[n.arg] = stores.get(n.arg, 0) + 0
    params = {a.arg for a in fn.args.posonlyargs + fn.args.args + fn.args.kwonlyargs}
    changed = 0
    for _ in range(3):
        found = None
        for n in ast.walk(fn):
            if isinstance(n, ast.Assign) and len(n.targets) == 1 and isinstance(n.targets[0], ast.Name):
                nm, v = n.targets[0].id, n.value
                if nm in keep or stores.get(nm, 0) != 1 or not isinstance(v, ast.Attribute):
                    continue
                root = v
                while isinstance(root, ast.Attribute):
                    root = root.value
                if not isinstance(root, ast.Name) or root.id == nm:
                    continue
                if stores.get(root.id, 0) > (0 if root.id in params else 1):
                    continue  # the root is re-bound somewhere
                found = (n, nm, v)
                break
        if found is None:
            break
        assign, nm, v = found

        class Rm(ast.NodeTransformer):
            def visit_Assign(self, node):
                if node is assign:
                    return None
                self.generic_visit(node)
                return node

            def visit_Name(self, node):
                if node.id == nm and isinstance(node.ctx, ast.Load):
                    return ast.copy_location(copy.deepcopy(v), node)
                return node

        Rm().visit(fn)
        for node in ast.walk(fn):
            for field in ("body", "orelse", "finalbody"):
                b = getattr(node, field, None)
                if isinstance(b, list) and not b and field == "body":
                    b.append(ast.Pass())
        stores[nm] = 0
        changed += 1
    return changed


def inline_new_temps(rel: str, tree: ast.Module) -> int:
    base = baseline_locals()
    if not base:
        return 0
    total = 0

    def handle(fn: ast.FunctionDef, qual: str):
        nonlocal total
        keep = base.get(f"{rel}::{qual}")
        if keep is None:
            return
        t = _InlineNewTemps(set(keep))
        for _ in range(4):
            before = t.changed
            t.run(fn)
            if t.changed == before:
                break
        total += t.changed

    for node in tree.body:
        if isinstance(node, ast.FunctionDef):
            handle(node, node.name)
        elif isinstance(node, ast.ClassDef):
            for s in node.body:
                if isinstance(s, ast.FunctionDef):
                    handle(s, f"{node.name}.{s.name}")
    if total:
        ast.fix_missing_locations(tree)
    return total


# ------------------------------------------------------------------------------------------------------------------
# N10: lazy pipelines in one spelling: filter/map calls and single-loop generator functions -> generator expressions
#
# ``filter(f, it)`` is ``(x for x in it if f(x))``, ``map(f, it)`` is ``(f(x) for x in it)``, and a function whose whole
# body is ``for T in IT: [if C:] yield E`` returns the same iterator as ``return (E for T in IT [if C])``.


class _LazyPipelines(ast.NodeTransformer):
    def __init__(self):
        self.changed = 0
        self.n = 0

    def visit_Call(self, node):
        self.generic_visit(node)
        if isinstance(node.func, ast.Name) and node.func.id in ("filter", "map") and len(node.args) == 2 and not node.keywords and _pure_arg(node.args[0]) and not (isinstance(node.args[0], ast.Constant)):
            self.n += 1
            var = f"item__n{self.n}"
            call = ast.Call(func=node.args[0], args=[ast.Name(var, ast.Load())], keywords=[])
            gen = ast.comprehension(target=ast.Name(var, ast.Store()), iter=node.args[1], ifs=[call] if node.func.id == "filter" else [], is_async=0)
            elt = ast.Name(var, ast.Load()) if node.func.id == "filter" else call
            self.changed += 1
            return ast.copy_location(ast.GeneratorExp(elt=elt, generators=[gen]), node)
        return node

    def visit_FunctionDef(self, node):
        self.generic_visit(node)
        body = _body(node)
        if len(body) == 1 and isinstance(body[0], ast.For) and not body[0].orelse:
            loop = body[0]
            inner = loop.body
            conds = []
            if len(inner) == 1 and isinstance(inner[0], ast.If) and not inner[0].orelse:
                conds = [inner[0].test]
                inner = inner[0].body
            if len(inner) == 1 and isinstance(inner[0], ast.Expr) and isinstance(inner[0].value, ast.Yield) and inner[0].value.value is not None:
                yields = [n for n in ast.walk(node) if isinstance(n, (ast.Yield, ast.YieldFrom))]
                if len(yields) == 1:
                    gen = ast.GeneratorExp(elt=inner[0].value.value, generators=[ast.comprehension(target=loop.target, iter=loop.iter, ifs=conds, is_async=0)])
                    ret = ast.copy_location(ast.Return(value=gen), loop)
                    node.body = node.body[: len(node.body) - 1] + [ret]
                    self.changed += 1
        return node


def lazy_pipelines(tree: ast.Module) -> int:
    t = _LazyPipelines()
    t.visit(tree)
    ast.fix_missing_locations(tree)
    return t.changed


# ------------------------------------------------------------------------------------------------------------------
# N11: a nested one-expression function is the lambda it could have been
#
# ``def f(row): return E`` followed by uses of ``f`` as a value  ->  ``lambda row: E`` at those uses.


class _NestedDefsToLambdas(ast.NodeTransformer):
    def __init__(self):
        self.changed = 0

    def visit_FunctionDef(self, outer: ast.FunctionDef):
        self.generic_visit(outer)
        cands: dict[str, ast.Lambda] = {}

        def scan(stmts):
            for s in stmts:
                if isinstance(s, ast.FunctionDef) and not s.decorator_list:
                    body = _body(s)
                    a = s.args
                    if len(body) == 1 and isinstance(body[0], ast.Return) and body[0].value is not None and not (a.vararg or a.kwarg or a.kwonlyargs or a.posonlyargs or a.defaults):
                        if not any(isinstance(n, (ast.Yield, ast.YieldFrom, ast.Await)) for n in ast.walk(body[0])):
                            cands[s.name] = ast.Lambda(args=ast.arguments(posonlyargs=[], args=[ast.arg(x.arg) for x in a.args], kwonlyargs=[], kw_defaults=[], defaults=[]), body=body[0].value)
                for field in ("body", "orelse", "finalbody"):
                    v = getattr(s, field, None)
                    if isinstance(v, list) and not isinstance(s, (ast.FunctionDef, ast.ClassDef)):
                        scan(v)
                if isinstance(s, ast.Match):
                    for c in s.cases:
                        scan(c.body)

        scan(outer.body)
        if not cands:
            return outer
        # a name defined twice, re-bound, or called recursively keeps its def
        counts: dict[str, int] = {}
        for n in ast.walk(outer):
            if isinstance(n, ast.FunctionDef) and n is not outer and n.name in cands:
                counts[n.name] = counts.get(n.name, 0) + 1
            elif isinstance(n, ast.Name) and isinstance(n.ctx, ast.Store) and n.id in cands:
                counts[n.id] = counts.get(n.id, 0) + 5
        for nm, lam in list(cands.items()):
            if counts.get(nm, 0) != 1 or any(isinstance(n, ast.Name) and n.id == nm for n in ast.walk(lam.body)):
                del cands[nm]
        if not cands:
            return outer

        class Use(ast.NodeTransformer):
            def visit_Name(self, n):
                if isinstance(n.ctx, ast.Load) and n.id in cands:
                    return ast.copy_location(copy.deepcopy(cands[n.id]), n)
                return n

            def visit_FunctionDef(self, n):
                if n.name in cands:
                    return None
                self.generic_visit(n)
                return n

        def strip(stmts):
            out = []
            for s in stmts:
                if isinstance(s, ast.FunctionDef) and s.name in cands:
                    continue
                r = Use().visit(s)
                if r is not None:
                    out.append(r)
            return out or [ast.Pass()]

        outer.body = strip(outer.body)
        self.changed += len(cands)
        return outer


def nested_defs_to_lambdas(tree: ast.Module) -> int:
    t = _NestedDefsToLambdas()
    t.visit(tree)
    ast.fix_missing_locations(tree)
    return t.changed



def propagate_new_aliases(rel: str, tree: ast.Module) -> int:
    """N12, run after N4 (aliases that can become pattern captures have become captures by then)."""
    base = baseline_locals()
    if not base:
        return 0
    total = 0
    for node in tree.body:
        if isinstance(node, ast.FunctionDef):
            keep = base.get(f"{rel}::{node.name}")
            if keep is not None:
                total += _propagate_new_aliases(node, set(keep))
        elif isinstance(node, ast.ClassDef):
            for s in node.body:
                if isinstance(s, ast.FunctionDef):
                    keep = base.get(f"{rel}::{node.name}.{s.name}")
                    if keep is not None:
                        total += _propagate_new_aliases(s, set(keep))
    if total:
        ast.fix_missing_locations(tree)
    return total


# ------------------------------------------------------------------------------------------------------------------
# N13: ``match <vararg>:`` with sequence patterns  ->  length tests
#
# For a ``*args`` parameter (always a tuple) ``case ():`` is ``not args``, ``case (x,):`` is ``len(args) == 1`` with
# ``x = args[0]``, ``case (x, y):`` is ``len(args) == 2`` ..., and ``case _:`` is the remainder.  The package writes the
# length tests; the rules read guards as facts about ``len``/truthiness, so the pattern spelling is put back.


class _SequenceMatchToIf(ast.NodeTransformer):
    def __init__(self) -> None:
        self.changed = 0
        self._varargs: list[str | None] = []

    def visit_FunctionDef(self, node: ast.FunctionDef):
        self._varargs.append(node.args.vararg.arg if node.args.vararg is not None else None)
        rebound = {t.id for s in ast.walk(node) for t in (s.targets if isinstance(s, ast.Assign) else []) if isinstance(t, ast.Name)}
        if self._varargs[-1] in rebound:
            self._varargs[-1] = None
        self.generic_visit(node)
        self._varargs.pop()
        return node

    def _convert(self, node: ast.Match) -> ast.stmt | None:
        va = self._varargs[-1] if self._varargs else None
        if va is None or not (isinstance(node.subject, ast.Name) and node.subject.id == va):
            return None
        arms: list[tuple[ast.expr | None, list[ast.stmt]]] = []
        for c in node.cases:
            if c.guard is not None:
                return None
            p = c.pattern
            if isinstance(p, ast.MatchAs) and p.pattern is None and p.name is None:
                arms.append((None, c.body))
                continue
            if not isinstance(p, ast.MatchSequence):
                return None
            binds: list[ast.stmt] = []
            for i, q in enumerate(p.patterns):
                if isinstance(q, ast.MatchAs) and q.pattern is None:
                    if q.name is not None:
                        binds.append(ast.Assign(targets=[ast.Name(q.name, ast.Store())], value=ast.Subscript(value=ast.Name(va, ast.Load()), slice=ast.Constant(i), ctx=ast.Load()), lineno=c.body[0].lineno))
                else:
                    return None
            n = len(p.patterns)
            if n == 0:
                test: ast.expr = ast.UnaryOp(op=ast.Not(), operand=ast.Name(va, ast.Load()))
            else:
                test = ast.Compare(left=ast.Call(func=ast.Name("len", ast.Load()), args=[ast.Name(va, ast.Load())], keywords=[]), ops=[ast.Eq()], comparators=[ast.Constant(n)])
            arms.append((test, binds + c.body))
        if not arms or arms[0][0] is None:
            return None
        # a wildcard arm must be the last one
        if any(t is None for t, _ in arms[:-1]):
            return None
        tail: list[ast.stmt] = []
        if arms[-1][0] is None:
            tail = arms[-1][1]
            arms = arms[:-1]
        cur: list[ast.stmt] = tail
        for test, body in reversed(arms):
            cur = [ast.copy_location(ast.If(test=test, body=body, orelse=cur), node)]
        return cur[0]

    def generic_visit(self, node):
        super().generic_visit(node)
        for field in ("body", "orelse", "finalbody"):
            v = getattr(node, field, None)
            if isinstance(v, list) and v and isinstance(v[0], ast.stmt):
                out = []
                for s in v:
                    r = self._convert(s) if isinstance(s, ast.Match) else None
                    if r is not None:
                        self.changed += 1
                        out.append(r)
                    else:
                        out.append(s)
                setattr(node, field, out)
        return node


def sequence_match_to_if(tree: ast.Module) -> int:
    t = _SequenceMatchToIf()
    t.visit(tree)
    if t.changed:
        ast.fix_missing_locations(tree)
    return t.changed


# ------------------------------------------------------------------------------------------------------------------
# N14: ``for x in it: acc.append(e)``  ->  ``acc.extend(e for x in it)``   (acc an existing list; no else, no other
# statement in the loop; e and it do not mention acc).  Both append the same values in the same order.


class _AppendLoopsToExtend(ast.NodeTransformer):
    def __init__(self) -> None:
        self.changed = 0

    def _try(self, loop: ast.stmt) -> ast.stmt | None:
        if not isinstance(loop, ast.For) or loop.orelse or len(loop.body) != 1:
            return None
        body = loop.body[0]
        conds: list[ast.expr] = []
        if isinstance(body, ast.If) and not body.orelse and len(body.body) == 1:
            conds.append(body.test)
            body = body.body[0]
        if not (isinstance(body, ast.Expr) and isinstance(body.value, ast.Call) and isinstance(body.value.func, ast.Attribute) and body.value.func.attr == "append" and isinstance(body.value.func.value, ast.Name) and len(body.value.args) == 1 and not body.value.keywords):
            return None
        acc = body.value.func.value.id
        for e in [body.value.args[0], loop.iter, loop.target] + conds:
            if any(isinstance(n, ast.Name) and n.id == acc for n in ast.walk(e)):
                return None
        gen = ast.GeneratorExp(elt=body.value.args[0], generators=[ast.comprehension(target=loop.target, iter=loop.iter, ifs=conds, is_async=0)])
        call = ast.Call(func=ast.Attribute(value=ast.Name(acc, ast.Load()), attr="extend", ctx=ast.Load()), args=[gen], keywords=[])
        return ast.copy_location(ast.Expr(value=call), loop)

    def generic_visit(self, node):
        super().generic_visit(node)
        for field in ("body", "orelse", "finalbody"):
            v = getattr(node, field, None)
            if isinstance(v, list) and v and isinstance(v[0], ast.stmt):
                out = []
                for s in v:
                    r = self._try(s)
                    if r is not None:
                        self.changed += 1
                        out.append(r)
                    else:
                        out.append(s)
                setattr(node, field, out)
        if isinstance(node, ast.Match):
            for c in node.cases:
                out = []
                for s in c.body:
                    r = self._try(s)
                    if r is not None:
                        self.changed += 1
                        out.append(r)
                    else:
                        out.append(s)
                c.body = out
        return node


def append_loops_to_extend(tree: ast.Module) -> int:
    t = _AppendLoopsToExtend()
    t.visit(tree)
    if t.changed:
        ast.fix_missing_locations(tree)
    return t.changed


# ------------------------------------------------------------------------------------------------------------------
# N15: consecutive arms ``case K(operation=A(...), <captures>): X`` / ``case K(operation=B(...), <captures>): Y`` of
# one node class K  ->  ``case K(operation=operation, <captures>): match operation: case A(...): X  case B(...): Y``.
# A K node whose operation is none of A, B falls out of the outer match either way, provided no later arm can accept a
# K node: K is one of the two operation-node classes and every later arm tests a different, unrelated class.

_NODE_CLASSES = {"UnaryOperationRelation", "BinaryOperationRelation"}
_UNRELATED = {"UnaryOperationRelation", "BinaryOperationRelation", "LeafRelation", "MarkerRelation", "Select", "Transfer", "Materialization"}


def _top_class(p: ast.pattern) -> str | None:
    if isinstance(p, ast.MatchClass) and not p.patterns:
        return _last_name(p.cls)
    return None


class _NestOperationPatterns(ast.NodeTransformer):
    def __init__(self) -> None:
        self.changed = 0

    def visit_FunctionDef(self, node: ast.FunctionDef):
        self._names = {n.id for n in ast.walk(node) if isinstance(n, ast.Name)} | {a.arg for a in node.args.args}
        self.generic_visit(node)
        return node

    def visit_Match(self, node: ast.Match):
        self.generic_visit(node)
        cases = node.cases
        i = 0
        out: list[ast.match_case] = []
        while i < len(cases):
            c = cases[i]
            k = _top_class(c.pattern)
            if k in _NODE_CLASSES and c.guard is None and "operation" in c.pattern.kwd_attrs:  # type: ignore[union-attr]
                group = [c]
                j = i + 1
                while j < len(cases) and _top_class(cases[j].pattern) == k and cases[j].guard is None and "operation" in cases[j].pattern.kwd_attrs:  # type: ignore[union-attr]
                    group.append(cases[j])
                    j += 1
                later_ok = all(_top_class(x.pattern) in _UNRELATED - {k} for x in cases[j:])

                def split(case: ast.match_case):
                    p = case.pattern
                    assert isinstance(p, ast.MatchClass)
                    idx = p.kwd_attrs.index("operation")
                    sub = p.kwd_patterns[idx]
                    rest = [(a, q) for n, (a, q) in enumerate(zip(p.kwd_attrs, p.kwd_patterns)) if n != idx]
                    return sub, rest

                parts = [split(g) for g in group]
                same_rest = all(
                    [(a, ast.dump(q)) for a, q in r] == [(a, ast.dump(q)) for a, q in parts[0][1]] and all(isinstance(q, ast.MatchAs) and q.pattern is None for _, q in r)
                    for _, r in parts
                )
                subs_are_classes = all(isinstance(s, ast.MatchClass) for s, _ in parts)
                name = "operation" if "operation" not in getattr(self, "_names", set()) else "operation__n"
                if len(group) >= 2 and later_ok and same_rest and subs_are_classes:
                    inner = ast.Match(subject=ast.Name(name, ast.Load()), cases=[ast.match_case(pattern=s, guard=None, body=g.body) for (s, _), g in zip(parts, group)])
                    ast.copy_location(inner, group[0].body[0])
                    rest = parts[0][1]
                    pat = ast.MatchClass(
                        cls=c.pattern.cls,  # type: ignore[union-attr]
                        patterns=[],
                        kwd_attrs=["operation"] + [a for a, _ in rest],
                        kwd_patterns=[ast.MatchAs(pattern=None, name=name)] + [q for _, q in rest],
                    )
                    out.append(ast.match_case(pattern=pat, guard=None, body=[inner]))
                    self.changed += 1
                    i = j
                    continue
            out.append(c)
            i += 1
        node.cases = out
        return node


def nest_operation_patterns(tree: ast.Module) -> int:
    t = _NestOperationPatterns()
    t.visit(tree)
    if t.changed:
        ast.fix_missing_locations(tree)
    return t.changed


# ------------------------------------------------------------------------------------------------------------------
# N17: `x[slice(a, b)]` is `x[a:b]`


class _SliceCalls(ast.NodeTransformer):
    def __init__(self):
        self.n = 0

    def visit_Subscript(self, node: ast.Subscript):
        self.generic_visit(node)
        s = node.slice
        if isinstance(s, ast.Call) and isinstance(s.func, ast.Name) and s.func.id == "slice" and not s.keywords and 1 <= len(s.args) <= 3 and not any(isinstance(a, ast.Starred) for a in s.args):
            a = list(s.args)
            none = lambda e: None if isinstance(e, ast.Constant) and e.value is None else e  # noqa: E731
            if len(a) == 1:
                new = ast.Slice(lower=None, upper=none(a[0]), step=None)
            else:
                new = ast.Slice(lower=none(a[0]), upper=none(a[1]), step=none(a[2]) if len(a) == 3 else None)
            node.slice = ast.copy_location(new, s)
            self.n += 1
        return node


def slice_calls_to_slices(tree: ast.Module) -> int:
    t = _SliceCalls()
    t.visit(tree)
    if t.n:
        ast.fix_missing_locations(tree)
    return t.n


# ------------------------------------------------------------------------------------------------------------------
# N18: a base-class constructor that only stores its arguments, called from a subclass constructor, is those stores


def inline_base_inits(trees: dict[str, ast.Module]) -> int:
    classes: dict[str, list[ast.ClassDef]] = {}
    for tree in trees.values():
        for n in tree.body:
            if isinstance(n, ast.ClassDef):
                classes.setdefault(n.name, []).append(n)

    def simple_init(c: ast.ClassDef):
        init = next((s for s in c.body if isinstance(s, ast.FunctionDef) and s.name == "__init__"), None)
        if init is None or init.args.vararg or init.args.kwarg or init.args.kwonlyargs or init.args.defaults:
            return None
        body = [s for s in init.body if not (isinstance(s, ast.Expr) and isinstance(s.value, ast.Constant))]
        params = [a.arg for a in init.args.args]
        if not params or not body:
            return None
        for s in body:
            if not (isinstance(s, ast.Assign) and len(s.targets) == 1 and isinstance(s.targets[0], ast.Attribute) and isinstance(s.targets[0].value, ast.Name) and s.targets[0].value.id == params[0]):
                return None
            if any(isinstance(x, (ast.Call, ast.Lambda, ast.NamedExpr, ast.Await, ast.Yield)) for x in ast.walk(s.value)):
                return None
        return params, body

    n = 0
    for tree in trees.values():
        for c in tree.body:
            if not isinstance(c, ast.ClassDef):
                continue
            init = next((s for s in c.body if isinstance(s, ast.FunctionDef) and s.name == "__init__"), None)
            if init is None or not init.args.args:
                continue
            me = init.args.args[0].arg
            base_names = [b.id if isinstance(b, ast.Name) else b.attr if isinstance(b, ast.Attribute) else None for b in c.bases]
            new_body = []
            for s in init.body:
                repl = None
                if isinstance(s, ast.Expr) and isinstance(s.value, ast.Call) and isinstance(s.value.func, ast.Attribute) and s.value.func.attr == "__init__" and not s.value.keywords:
                    call = s.value
                    recv = call.func.value
                    bname, args = None, None
                    if isinstance(recv, ast.Name) and recv.id in base_names and call.args and isinstance(call.args[0], ast.Name) and call.args[0].id == me:
                        bname, args = recv.id, call.args[1:]
                    elif isinstance(recv, ast.Call) and isinstance(recv.func, ast.Name) and recv.func.id == "super" and not recv.args and len([b for b in base_names if b in classes]) == 1:
                        bname, args = next(b for b in base_names if b in classes), call.args
                    if bname and len(classes.get(bname, [])) == 1 and not any(isinstance(a, ast.Starred) for a in args):
                        si = simple_init(classes[bname][0])
                        if si is not None and len(si[0]) - 1 == len(args):
                            params, body = si
                            mapping = {params[0]: ast.Name(me, ast.Load())}
                            mapping.update(dict(zip(params[1:], args)))
                            repl = [ast.copy_location(_Subst(mapping).visit(copy.deepcopy(b)), s) for b in body]
                if repl is not None:
                    new_body.extend(repl)
                    n += 1
                else:
                    new_body.append(s)
            init.body = new_body
        if n:
            ast.fix_missing_locations(tree)
    return n


# ------------------------------------------------------------------------------------------------------------------
# N19: `match <conditional expression whose leaves are constants>` with constant arms is the nest of ifs it abbreviates
#      (a tri-state helper `-> bool | None`, inlined, read with `case True: ... case False: ...`)


def _const_leaves(e: ast.expr) -> bool:
    if isinstance(e, ast.IfExp):
        return _const_leaves(e.body) and _const_leaves(e.orelse)
    return isinstance(e, ast.Constant) and (e.value is None or isinstance(e.value, bool))


def _arm_for(cases: list[ast.match_case], value) -> list[ast.stmt] | None:
    for c in cases:
        p = c.pattern
        if c.guard is not None:
            return None
        if isinstance(p, ast.MatchSingleton):
            if p.value is value:
                return c.body
        elif isinstance(p, ast.MatchValue) and isinstance(p.value, ast.Constant):
            if p.value.value is value or (type(p.value.value) is type(value) and p.value.value == value):
                return c.body
        elif isinstance(p, ast.MatchAs) and p.pattern is None and p.name is None:
            return c.body
        else:
            return None
    return []


class _ConstMatch(ast.NodeTransformer):
    def __init__(self):
        self.n = 0

    def _expand(self, e: ast.expr, cases) -> list[ast.stmt] | None:
        if isinstance(e, ast.IfExp):
            a, b = self._expand(e.body, cases), self._expand(e.orelse, cases)
            if a is None or b is None:
                return None
            return [ast.If(test=copy.deepcopy(e.test), body=a or [ast.Pass()], orelse=b)]
        body = _arm_for(cases, e.value)  # type: ignore[union-attr]
        return None if body is None else [copy.deepcopy(s) for s in body]

    def visit_Match(self, node: ast.Match):
        self.generic_visit(node)
        if not (isinstance(node.subject, ast.IfExp) and _const_leaves(node.subject)):
            return node
        if not all(isinstance(c.pattern, (ast.MatchSingleton, ast.MatchValue)) or (isinstance(c.pattern, ast.MatchAs) and c.pattern.pattern is None and c.pattern.name is None) for c in node.cases):
            return node
        out = self._expand(node.subject, node.cases)
        if out is None:
            return node
        self.n += 1
        return [ast.copy_location(s, node) for s in out] or [ast.copy_location(ast.Pass(), node)]


def constant_matches_to_ifs(tree: ast.Module) -> int:
    t = _ConstMatch()
    t.visit(tree)
    if t.n:
        ast.fix_missing_locations(tree)
    return t.n
