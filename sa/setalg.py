"""Exact reasoning about small set expressions by Venn regions.

A set expression over n atomic sets (given by their source text) denotes a union of the 2^n Venn regions; two
expressions are equal for all values of the atoms iff they denote the same regions.  Statement sequences that
build a set in a local (``r = set(A)``, ``r.difference_update(F)``, ``r.update(M)``, ``r |= X`` ...) are followed
along a path.  Nothing is executed.
"""

from __future__ import annotations

import ast

from .astutil import src
from .paths import Path

UNKNOWN = None


class Venn:
    def __init__(self, atoms: list[str]):
        self.atoms = atoms
        self.n = len(atoms)
        self.full = frozenset(range(1 << self.n))

    def atom(self, text: str) -> frozenset | None:
        if text not in self.atoms:
            return None
        i = self.atoms.index(text)
        return frozenset(r for r in self.full if r >> i & 1)

    def eval(self, node: ast.expr, env: dict[str, frozenset]) -> frozenset | None:
        t = src(node)
        a = self.atom(t)
        if a is not None:
            return a
        if isinstance(node, ast.Name) and node.id in env:
            return env[node.id]
        if isinstance(node, ast.Call):
            f = node.func
            if isinstance(f, ast.Name) and f.id in ("set", "frozenset") and len(node.args) <= 1 and not node.keywords:
                return frozenset() if not node.args else self.eval(node.args[0], env)
            if isinstance(f, ast.Attribute) and len(node.args) == 1 and not node.keywords:
                x, y = self.eval(f.value, env), self.eval(node.args[0], env)
                if x is None or y is None:
                    return None
                if f.attr == "union":
                    return x | y
                if f.attr == "difference":
                    return x - y
                if f.attr == "intersection":
                    return x & y
                if f.attr == "symmetric_difference":
                    return x ^ y
        if isinstance(node, ast.BinOp):
            x, y = self.eval(node.left, env), self.eval(node.right, env)
            if x is None or y is None:
                return None
            if isinstance(node.op, ast.BitOr):
                return x | y
            if isinstance(node.op, ast.Sub):
                return x - y
            if isinstance(node.op, ast.BitAnd):
                return x & y
            if isinstance(node.op, ast.BitXor):
                return x ^ y
        if isinstance(node, ast.Set):
            out: frozenset = frozenset()
            for e in node.elts:
                s = self.atom("{" + src(e) + "}")
                if s is None:
                    return None
                out |= s
            return out
        return None

    def run_path(self, p: Path, result: ast.expr | None) -> frozenset | None:
        """Value of ``result`` at the end of path ``p`` (following in-place set updates of locals)."""
        env: dict[str, frozenset] = {}
        for s in p.steps:
            n = s.node
            if s.kind != "stmt":
                continue
            if isinstance(n, (ast.Assign, ast.AnnAssign)):
                tgt = n.targets[0] if isinstance(n, ast.Assign) else n.target
                if isinstance(tgt, ast.Name) and n.value is not None:
                    v = self.eval(n.value, env)
                    if v is None:
                        env.pop(tgt.id, None)
                    else:
                        env[tgt.id] = v
            elif isinstance(n, ast.AugAssign) and isinstance(n.target, ast.Name) and n.target.id in env:
                y = self.eval(n.value, env)
                if y is None:
                    env.pop(n.target.id)
                elif isinstance(n.op, ast.BitOr):
                    env[n.target.id] |= y
                elif isinstance(n.op, ast.Sub):
                    env[n.target.id] -= y
                elif isinstance(n.op, ast.BitAnd):
                    env[n.target.id] &= y
                else:
                    env.pop(n.target.id)
            elif isinstance(n, ast.Expr) and isinstance(n.value, ast.Call) and isinstance(n.value.func, ast.Attribute) and isinstance(n.value.func.value, ast.Name):
                name = n.value.func.value.id
                if name not in env:
                    continue
                meth = n.value.func.attr
                if meth == "add" and len(n.value.args) == 1:
                    y = self.atom("{" + src(n.value.args[0]) + "}")
                else:
                    y = self.eval(n.value.args[0], env) if len(n.value.args) == 1 else None
                if y is None:
                    env.pop(name)
                elif meth in ("update", "add"):
                    env[name] |= y
                elif meth == "difference_update":
                    env[name] -= y
                elif meth == "intersection_update":
                    env[name] &= y
                elif meth == "discard":
                    env[name] -= y
                else:
                    env.pop(name)
        if result is None:
            return None
        return self.eval(result, env)
