"""Exact comparison of boolean *definitions* (flags, predicates) as propositional formulas.

A flag such as ``is_join_identity`` can be written as one expression, as guard clauses, with a temporary, with
``not ... is None`` instead of ``is not None`` ...  All of these denote the same Boolean function of the same atomic
tests.  The function body is turned into a formula over the normalised atoms of `sa.facts` (paths are mutually
exclusive, so the function is the disjunction over returning paths of *path condition AND returned expression*) and
two formulas are compared by their truth tables.  Atoms are treated as independent except for the equality theory:
assignments that violate reflexive/transitive closure of the EQ atoms are skipped, so ``a == b == 1`` and
``a == 1 and b == 1`` compare equal.  Nothing is executed; the truth table is over the (few) atoms in the formulas.
"""

from __future__ import annotations

import ast
import itertools

from .astutil import src
from .facts import Fact, _substitute, facts_of, step_facts
from .paths import Path, _binds

MAX_ATOMS = 14

T = ("const", True)
F = ("const", False)


def atom(kind: str, *args: str):
    return ("atom", f"{kind}({', '.join(args)})")


def neg(f):
    if f[0] == "const":
        return ("const", not f[1])
    if f[0] == "not":
        return f[1]
    return ("not", f)


def conj(parts):
    parts = [p for p in parts if p != T]
    if any(p == F for p in parts):
        return F
    if not parts:
        return T
    return parts[0] if len(parts) == 1 else ("and", tuple(parts))


def disj(parts):
    parts = [p for p in parts if p != F]
    if any(p == T for p in parts):
        return T
    if not parts:
        return F
    return parts[0] if len(parts) == 1 else ("or", tuple(parts))


def of_fact(f: Fact):
    if f.kind == "OR":
        return disj([conj([of_fact(x) for x in alt]) for alt in f.parts])
    a = ("atom", f"{f.kind}({', '.join(f.args)})")
    return a if f.polarity else ("not", a)


def of_expr(node: ast.expr, polarity: bool = True):
    """Formula for ``bool(node) == polarity``."""
    if isinstance(node, ast.Constant) and (isinstance(node.value, (bool, int)) or node.value is None):
        return T if bool(node.value) == polarity else F
    if isinstance(node, ast.UnaryOp) and isinstance(node.op, ast.Not):
        return of_expr(node.operand, not polarity)
    if isinstance(node, ast.IfExp):
        f = disj([conj([of_expr(node.test, True), of_expr(node.body, True)]), conj([of_expr(node.test, False), of_expr(node.orelse, True)])])
        return f if polarity else neg(f)
    if isinstance(node, ast.BoolOp):
        parts = [of_expr(v, True) for v in node.values]
        f = conj(parts) if isinstance(node.op, ast.And) else disj(parts)
        return f if polarity else neg(f)
    if isinstance(node, ast.Call) and isinstance(node.func, ast.Name) and node.func.id == "bool" and len(node.args) == 1 and not node.keywords:
        return of_expr(node.args[0], polarity)
    if isinstance(node, ast.Compare) and len(node.ops) > 1:
        # a OP b OP c  ==  (a OP b) and (b OP c)
        parts = []
        left = node.left
        for op, right in zip(node.ops, node.comparators):
            parts.append(of_expr(ast.Compare(left=left, ops=[op], comparators=[right]), True))
            left = right
        f = conj(parts)
        return f if polarity else neg(f)
    if isinstance(node, ast.Call) and isinstance(node.func, ast.Name) and node.func.id in ("all", "any") and len(node.args) == 1 and isinstance(node.args[0], (ast.Tuple, ast.List)):
        parts = [of_expr(v, True) for v in node.args[0].elts]
        f = conj(parts) if node.func.id == "all" else disj(parts)
        return f if polarity else neg(f)
    return conj([of_fact(f) for f in facts_of(node, True)]) if polarity else neg(conj([of_fact(f) for f in facts_of(node, True)]))


def atoms_of(f, out=None) -> set[str]:
    out = set() if out is None else out
    if f[0] == "atom":
        out.add(f[1])
    elif f[0] == "not":
        atoms_of(f[1], out)
    elif f[0] in ("and", "or"):
        for p in f[1]:
            atoms_of(p, out)
    return out


def evaluate(f, env: dict[str, bool]) -> bool:
    k = f[0]
    if k == "const":
        return f[1]
    if k == "atom":
        return env[f[1]]
    if k == "not":
        return not evaluate(f[1], env)
    if k == "and":
        return all(evaluate(p, env) for p in f[1])
    return any(evaluate(p, env) for p in f[1])


def _eq_consistent(env: dict[str, bool]) -> bool:
    """Reject assignments that contradict the theory of equality over the EQ/IS atoms."""
    parent: dict[str, str] = {}

    def find(x):
        parent.setdefault(x, x)
        while parent[x] != x:
            parent[x] = parent[parent[x]]
            x = parent[x]
        return x

    pairs = []
    for a, v in env.items():
        for kind in ("EQ(", "IS("):
            if a.startswith(kind) and a.endswith(")"):
                body = a[len(kind) : -1]
                parts = body.split(", ")
                if len(parts) == 2:
                    pairs.append((kind, parts[0], parts[1], v))
    for kind, x, y, v in pairs:
        if v:
            parent[find(x)] = find(y)
    for kind, x, y, v in pairs:
        if not v and find(x) == find(y) and (kind == "EQ(" or "None" in (x, y)):
            return False
    # two different literals in one class
    classes: dict[str, set[str]] = {}
    for x in list(parent):
        classes.setdefault(find(x), set()).add(x)
    for members in classes.values():
        lits = {m for m in members if m in ("None", "True", "False") or m.lstrip("-").isdigit()}
        if len(lits) > 1:
            return False
    return True


def equivalent(f, g) -> tuple[bool, dict[str, bool] | None]:
    """Are the formulas the same Boolean function?  Returns (verdict, counter-assignment)."""
    names = sorted(atoms_of(f) | atoms_of(g))
    if len(names) > MAX_ATOMS:
        raise ValueError(f"too many atoms ({len(names)}) for a truth table")
    for vals in itertools.product((False, True), repeat=len(names)):
        env = dict(zip(names, vals))
        if not _eq_consistent(env):
            continue
        if evaluate(f, env) != evaluate(g, env):
            return False, env
    return True, None


def implies(f, g) -> tuple[bool, dict[str, bool] | None]:
    return equivalent(disj([neg(f), g]), T)


def path_condition(path: Path, upto: int | None = None):
    """(formula of the branch decisions, definitions of locals at the end) with locals copy-propagated."""
    defs: dict[str, ast.expr] = {}
    parts = []
    steps = path.steps if upto is None else path.steps[:upto]
    for s in steps:
        bound = _binds(s)
        if s.kind == "cond":
            node = _substitute(s.node, defs) or s.node
            parts.append(of_expr(node, s.value))
        elif s.kind in ("case", "loop"):
            parts.append(conj([of_fact(f) for f in step_facts(s)]))
        if bound:
            for k in list(defs):
                if k in bound or (_names(defs[k]) & bound):
                    del defs[k]
        n = s.node
        if s.kind == "stmt" and isinstance(n, ast.Assign) and len(n.targets) == 1 and isinstance(n.targets[0], ast.Name):
            if n.targets[0].id not in _names(n.value):
                defs[n.targets[0].id] = _substitute(n.value, defs) or n.value
        elif s.kind == "stmt" and isinstance(n, ast.AnnAssign) and isinstance(n.target, ast.Name) and n.value is not None:
            defs[n.target.id] = _substitute(n.value, defs) or n.value
        if s.kind in ("stmt", "cond") and not isinstance(n, ast.match_case):
            for w in ast.walk(n):
                if isinstance(w, ast.NamedExpr) and isinstance(w.target, ast.Name):
                    defs[w.target.id] = w.value
    return conj(parts), defs


def _names(node: ast.AST) -> set[str]:
    return {n.id for n in ast.walk(node) if isinstance(n, ast.Name)}


def function_truth(paths: list[Path]):
    """Formula of "the function returns a truthy value"; None if some path raises or falls off the end."""
    alts = []
    for p in paths:
        if p.outcome != "return" or p.value is None:
            return None
        cond, defs = path_condition(p)
        v = _substitute(p.value, defs) or p.value
        alts.append(conj([cond, of_expr(v, True)]))
    return disj(alts)


def show(f) -> str:
    k = f[0]
    if k == "const":
        return str(f[1])
    if k == "atom":
        return f[1]
    if k == "not":
        return f"not {show(f[1])}"
    sep = " and " if k == "and" else " or "
    return "(" + sep.join(show(p) for p in f[1]) + ")"


def show_env(env: dict[str, bool] | None) -> str:
    if not env:
        return ""
    return ", ".join(f"{k}={'T' if v else 'F'}" for k, v in env.items())
