"""Static-analysis machinery for the daf_relation property checks.

Nothing in this package imports or executes daf_relation; every module works on
`ast` trees parsed from the working tree under $VERIF_REPO (default /repo).
"""
