"""Closed class sets of the package and class-pattern evaluation (part of E1/E4)."""

from __future__ import annotations

import ast
import functools

from .astutil import AnalysisError, dotted, iter_calls, pattern_class_names, pattern_is_wildcard, src
from .model import ClassInfo, FunctionInfo, Model


class Kinds:
    def __init__(self, model: Model):
        self.m = model
        self.unary_root = model.cls("_unary_operation.py", "UnaryOperation")
        self.binary_root = model.cls("_binary_operation.py", "BinaryOperation")
        self.relation_root = model.cls("_relation.py", "BaseRelation")
        self.expr_root = model.cls("_columns/_expression.py", "ColumnExpression")
        self.pred_root = model.cls("_columns/_predicate.py", "Predicate")
        self.container_root = model.cls("_columns/_container.py", "ColumnContainer")
        self.marker = model.cls("_marker_relation.py", "MarkerRelation")

    # -- closed sets -------------------------------------------------------

    @functools.cached_property
    def unary_ops(self) -> list[ClassInfo]:
        return self.m.closed_set(self.unary_root)

    @functools.cached_property
    def binary_ops(self) -> list[ClassInfo]:
        return self.m.closed_set(self.binary_root)

    @functools.cached_property
    def relation_kinds(self) -> list[ClassInfo]:
        return self.m.closed_set(self.relation_root)

    @functools.cached_property
    def column_exprs(self) -> list[ClassInfo]:
        return self.m.closed_set(self.expr_root)

    @functools.cached_property
    def predicates(self) -> list[ClassInfo]:
        return self.m.closed_set(self.pred_root)

    @functools.cached_property
    def containers(self) -> list[ClassInfo]:
        return self.m.closed_set(self.container_root)

    def concrete(self, classes: list[ClassInfo]) -> list[ClassInfo]:
        return [c for c in classes if not self.m.is_abstract(c)]

    # -- placeholders ------------------------------------------------------

    def _reaches_base_constructor(self, c: ClassInfo, ctor_names: set[str]) -> bool:
        """Does c's resolved ``_finish_apply`` construct a node or delegate to ``super()``?"""
        seen: set[FunctionInfo] = set()
        mro = self.m.mro(c)

        def rec(fi: FunctionInfo | None, start: int) -> bool:
            if fi is None or fi in seen:
                return False
            seen.add(fi)
            for call in iter_calls(fi.node):
                name = dotted(call.func) or ""
                if name.split(".")[-1] in ctor_names:
                    return True
                if name == "super()._finish_apply":
                    owner = fi.cls
                    idx = mro.index(owner) if owner in mro else start
                    for k in mro[idx + 1 :]:
                        if "_finish_apply" in k.methods:
                            if rec(k.methods["_finish_apply"], idx + 1):
                                return True
                            break
            return False

        return rec(self.m.method(c, "_finish_apply"), 0)

    @functools.cached_property
    def placeholders(self) -> list[ClassInfo]:
        """Operation classes whose ``_finish_apply`` never builds an operation node."""
        out = []
        for c in self.concrete(self.unary_ops):
            if not self._reaches_base_constructor(c, {"UnaryOperationRelation"}):
                out.append(c)
        for c in self.concrete(self.binary_ops):
            if not self._reaches_base_constructor(c, {"BinaryOperationRelation"}):
                out.append(c)
        return out

    @functools.cached_property
    def node_unary_ops(self) -> list[ClassInfo]:
        """Concrete unary operation classes that can be held by a tree node."""
        ph = set(self.placeholders)
        return [c for c in self.concrete(self.unary_ops) if c not in ph]

    @functools.cached_property
    def node_binary_ops(self) -> list[ClassInfo]:
        ph = set(self.placeholders)
        return [c for c in self.concrete(self.binary_ops) if c not in ph]

    # -- pattern evaluation ------------------------------------------------

    def pattern_matches(self, module, pattern: ast.pattern, cls: ClassInfo) -> bool | None:
        """True/False when the class test of ``pattern`` is decided for an object whose
        exact class is ``cls``; `None` if sub-patterns/values make it undecidable."""
        if pattern_is_wildcard(pattern):
            return True
        if isinstance(pattern, ast.MatchAs) and pattern.pattern is not None:
            return self.pattern_matches(module, pattern.pattern, cls)
        if isinstance(pattern, ast.MatchOr):
            res = [self.pattern_matches(module, p, cls) for p in pattern.patterns]
            if any(r is True for r in res):
                return True
            if all(r is False for r in res):
                return False
            return None
        if isinstance(pattern, ast.MatchClass):
            name = dotted(pattern.cls)
            target = self.m.resolve_class(module, name) if name else None
            if target is None:
                return None
            if not self.m.is_subclass(cls, target):
                return False
            # sub-patterns that are pure captures / wildcards do not restrict
            for sp in list(pattern.patterns) + list(pattern.kwd_patterns):
                if not _is_pure_capture(sp):
                    return None
            return True
        return None

    def class_test(self, module, class_expr: ast.expr, cls: ClassInfo) -> bool | None:
        """isinstance(x, class_expr) for x of exact class ``cls``."""
        if isinstance(class_expr, ast.Tuple):
            res = [self.class_test(module, e, cls) for e in class_expr.elts]
            if any(r is True for r in res):
                return True
            if all(r is False for r in res):
                return False
            return None
        name = dotted(class_expr)
        target = self.m.resolve_class(module, name) if name else None
        if target is None:
            return None
        return self.m.is_subclass(cls, target)

    def covered_by_match(self, module, match: ast.Match, classes: list[ClassInfo]) -> dict[ClassInfo, ast.match_case | None]:
        """For each class, the first *class-testing* arm that certainly matches it.

        Wildcard / capture-all arms do not count as covering a class.
        """
        out: dict[ClassInfo, ast.match_case | None] = {}
        for c in classes:
            hit = None
            for case in match.cases:
                if pattern_is_wildcard(case.pattern):
                    continue
                if not pattern_class_names(case.pattern):
                    continue
                r = self.pattern_matches(module, case.pattern, c)
                if r is True and case.guard is None:
                    hit = case
                    break
                if r is None or (r is True and case.guard is not None):
                    # a restricted arm: does not count as certain coverage, but keep looking
                    continue
            out[c] = hit
        return out


def _is_pure_capture(p: ast.pattern) -> bool:
    if isinstance(p, ast.MatchAs):
        return p.pattern is None or _is_pure_capture(p.pattern)
    if isinstance(p, ast.MatchClass):
        # nested class pattern restricts
        return False
    return False


def find_match_on(fi: FunctionInfo, subject_text: str) -> list[ast.Match]:
    return [n for n in ast.walk(fi.node) if isinstance(n, ast.Match) and src(n.subject) == subject_text]


def require(cond: bool, msg: str) -> None:
    if not cond:
        raise AnalysisError(msg)
