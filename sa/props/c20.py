"""C20 - ill-formed requests are rejected at the factory call with the documented error."""

from __future__ import annotations

from ..rules import commute, expressions, validation
from .common import new_run

LEVEL = "proof"
LEVEL_TEXT = (
    "Dominance proof over all paths: every factory funnels into apply(); in apply() validation (_begin_apply) precedes "
    "every engine call on all paths; an inventory of the required checks (stated as semantic facts, with the documented "
    "exception class) is shown to hold on every successful exit of the validating functions; and node construction "
    "without validation is confined to call sites whose operation has a sanctioned provenance.  This covers every "
    "position in a tree and every preferred-engine option because all of them pass through the same entry points."
)
LEVEL_NOTE = (
    "Trusted: the frozen inventory of required checks (DESIGN.md C20), which transcribes the documented errors; "
    "'a rejected call leaves every relation unchanged' rests on C09's no-mutation result; extension operations "
    "(RowFilter/Reordering subclasses) validate themselves."
)
TECHNIQUE = "must-pass-through / dominance on enumerated ast paths + guard inventory on semantic facts + who-may-call table"


def check(model, tier):
    run, ctx = new_run(
        "C20",
        tier,
        LEVEL,
        model,
        "All BaseRelation factories, both apply() methods, every _begin_apply/__post_init__ holding a documented check "
        "and every _finish_apply call site in the package are enumerated; checks are recognised as semantic facts "
        "(subset, membership, equality, isinstance) on guarded paths, not as text.",
    )
    validation.r20_1_validation_first(ctx)
    validation.r20_2_inventory(ctx)
    validation.r20_3_who_may_bypass(ctx)
    expressions.r13_4_required_columns(ctx, rule="R20.4")
    from ..rules import reqeval as _reqeval

    _reqeval.r13_6_requirements(ctx, rule="R20.4e")
    commute.r04_4_set_formulas(ctx, rule="R20.5")
    from ..rules import sqlemit as _sqlemit

    _sqlemit.r_select_hooks_get_selects(ctx, "R20.7")
    from ..rules import mergeeval as _mergeeval

    _mergeeval.r13_7_selection_stores_equivalent(ctx, rule="R20.8")  # the stored predicate keeps every column requirement of the given one
    from ..rules import merge as _merge

    # the engine-support check sits after simplification in _finish_apply: only the identical operation may be elided
    _merge.r05_1_simplify_discipline(ctx, rule="R20.6")
    run.assume("no relation is mutated by a rejected call: follows from C09 (no in-place mutation anywhere)")
    from ..rules import classlevel as _classlevel

    _classlevel.r_commutator_messages(ctx, "R20.M1")
    from ..rules import reqeval as _reqeval20

    _reqeval20.r_common_columns_exact(ctx, "R20.9")  # a join on a column one operand lacks is refused when the common columns are resolved
    from ..rules import commute as _commute20

    _commute20.r14_17_partial_join_resolved(ctx, "R20.10")
    from ..rules.foundation import run_foundation

    run_foundation(ctx, "20")
    return run
