"""C13 - predicate folding, conjunction flattening and required-column sets are sound."""

from __future__ import annotations

from ..rules import expressions
from .common import new_run

LEVEL = "other"
LEVEL_TEXT = (
    "Decides the structural content of the three mechanisms over all paths and all expression classes: the connective "
    "table of as_trivial (identity / absorbing element / unknown), the provenance of every False and [] that "
    "flatten_logical_and can return, the provenance of the predicate a Selection stores, and that every child-expression "
    "field of every one of the 12 expression classes contributes to columns_required and is_supported_by.  Truth values "
    "on concrete rows are not evaluated."
)
LEVEL_NOTE = "Trusted: the connective table (And: True/False, Or: False/True).  Not decided: evaluation on rows."
TECHNIQUE = "per-path provenance rules over the closed expression hierarchy (ast paths, backward slices)"


def check(model, tier):
    run, ctx = new_run("C13", tier, LEVEL, model, "Connective tables, False/[] provenance, selection normalisation and child-field coverage are decided for all classes and paths; row-level truth is not.")
    expressions.r13_1_as_trivial(ctx)
    expressions.r13_2_flatten(ctx)
    expressions.r13_3_selection_normalisation(ctx)
    expressions.r13_4_required_columns(ctx)
    from ..rules import mutation as _mutation

    _mutation.r09_4_no_shared_mutation(ctx)
    from ..rules import foldeval as _foldeval

    _foldeval.r13_5_folding(ctx)
    return run
