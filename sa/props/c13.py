"""C13 - predicate folding, conjunction flattening and required-column sets are sound."""

from __future__ import annotations

from ..rules import expressions
from .common import new_run

LEVEL = "other"
LEVEL_TEXT = (
    "Folding and flattening are decided by evaluation: as_trivial and flatten_logical_and are interpreted from the source "
    "(checker's own evaluator; repository code is not run) on every predicate tree of depth <= 2 with 0-3 operands over "
    "the literals and four opaque atoms (~5 300 trees) and compared with the tree's value under every truth assignment - "
    "a folded constant must be right, False from the flattening means unsatisfiable, a flattened list must be equivalent.  "
    "Structural rules decide, over all paths and all 12 expression classes: the provenance of the predicate a Selection "
    "stores, that every child-expression field contributes to columns_required and that acceptance by is_supported_by "
    "*implies* (as a Boolean function) the support of every child, and the set formulas of required columns exactly over "
    "Venn regions; the connective/flatten path shapes only localise a failure.  Truth values on concrete rows of a "
    "database are not evaluated."
)
LEVEL_NOTE = "Bounded: trees of depth <= 2 (the functions are structurally recursive with one case per class).  Trusted: the reference semantics of And/Or/Not.  Not decided: evaluation on rows."
TECHNIQUE = "finite-domain interpretation of the folding/flattening functions on all small predicate trees + per-path provenance and Boolean-function rules over the closed expression hierarchy (ast)"


def check(model, tier):
    run, ctx = new_run("C13", tier, LEVEL, model, "Connective tables, False/[] provenance, selection normalisation and child-field coverage are decided for all classes and paths; row-level truth is not.")
    expressions.r13_1_as_trivial(ctx)
    expressions.r13_2_flatten(ctx)
    expressions.r13_3_selection_normalisation(ctx)
    expressions.r13_4_required_columns(ctx)
    from ..rules import mutation as _mutation

    _mutation.r09_4_no_shared_mutation(ctx)
    from ..rules import foldeval as _foldeval

    _foldeval.r13_5_folding(ctx)
    from ..rules import reqeval as _reqeval

    _reqeval.r13_6_requirements(ctx)
    from ..rules import mergeeval as _mergeeval

    _mergeeval.r13_7_selection_stores_equivalent(ctx)
    _mergeeval.r05_9_merge_semantics(ctx, rule="R13.8")  # a merged selection stores the conjunction of both predicates
    from ..rules.foundation import run_foundation

    run_foundation(ctx, "13")
    return run
