"""C18 - the iteration engine is lazy and single-pass where documented."""

from __future__ import annotations

import ast

from ..astutil import AnalysisError, call_attr, dotted, src, walk_no_nested_defs
from ..flow import case_index, step_exprs
from ..paths import Path, env_at, resolve_name
from ..rules import optional as optional_rules
from .common import IT_ENGINE, IT_ROWS, Ctx, describe, new_run

LEVEL = "proof"
LEVEL_TEXT = (
    "Effect analysis over iteration/_engine.py and _row_iterable.py: a value is row-typed if it is returned by execute() "
    "or is the stored source of a RowIterable; an expression *forces* it if it is a for loop / comprehension over it, an "
    "exhausting builtin applied to it, unpacking, membership, or a call to a method summarised (by fixpoint) as forcing.  "
    "The lazy arms of execute(), the constructors of the lazy iterables, sliced() and the convert_* methods are shown to "
    "contain no forcing expression; the eager arms force their input exactly once and return a built container; every "
    "lazy __iter__ iterates its source in exactly one position and nothing stores an iterator."
)
LEVEL_NOTE = (
    "Trusted: leaf payload classes supplied by callers behave like the package's own RowIterable classes; python "
    "generator expressions are lazy apart from calling iter() on their outermost iterable."
)
TECHNIQUE = "effect (forcing) analysis with fixpoint method summaries over ast paths"

LAZY_ARMS = ("Calculation", "Projection", "Selection", "Slice", "Chain", "Transfer", "MarkerRelation")
EAGER_ARMS = ("Sort", "Deduplication", "Materialization")
EXHAUSTING = {"list", "tuple", "set", "frozenset", "dict", "sorted", "sum", "min", "max", "any", "all", "next", "reversed", "len", "Counter", "deque"}


def forcing_methods(ctx: Ctx) -> set[str]:
    """Names of RowIterable methods that may iterate `self` (fixpoint over self-calls)."""
    m = ctx.m
    base = ctx.cls(IT_ROWS, "RowIterable")
    methods = [(c, f) for c in m.subclasses(base) for f in c.methods.values() if f.name not in ("__iter__", "__init__", "__len__")]
    forcing: set[str] = set()
    changed = True
    while changed:
        changed = False
        for c, f in methods:
            if f.name in forcing:
                continue
            if _forcing_exprs(f.node, {"self"}, forcing):
                forcing.add(f.name)
                changed = True
    return forcing


def _mentions(node: ast.AST, roots: set[str]) -> bool:
    """Is ``node`` (an iterable expression) one of the row-typed roots or an attribute chain of `self` sources?"""
    s = src(node)
    return s in roots


PIPES = {"zip", "map", "filter", "enumerate", "chain", "islice", "iter", "reversed", "zip_longest", "starmap"}


def _forcing_exprs(scope: ast.AST, rowvals: set[str], forcing: set[str]) -> list[ast.AST]:
    out: list[ast.AST] = []
    # locals bound to a generator over the rows are the rows, consumed wherever the local is consumed
    lazy_names = {
        t.id
        for s in walk_no_nested_defs(scope)
        if isinstance(s, ast.Assign) and isinstance(s.value, ast.GeneratorExp) and _mentions(s.value.generators[0].iter, rowvals)
        for t in s.targets
        if isinstance(t, ast.Name)
    }

    def _row_source(e: ast.AST) -> bool:
        return _mentions(e, rowvals) or (isinstance(e, ast.Name) and e.id in lazy_names) or (isinstance(e, ast.GeneratorExp) and _mentions(e.generators[0].iter, rowvals))

    for n in walk_no_nested_defs(scope):
        if isinstance(n, ast.Call) and isinstance(n.func, ast.Name) and n.func.id in EXHAUSTING and n.args and isinstance(n.args[0], ast.Call) and call_attr(n.args[0]) in PIPES:
            # dict(zip(keys, self)), list(map(f, self)), ...: every row source fed into the pipe is iterated
            for a in n.args[0].args:
                if _row_source(a):
                    out.append(a)
            continue
        if isinstance(n, (ast.For,)) and _mentions(n.iter, rowvals):
            out.append(n)
        elif isinstance(n, (ast.ListComp, ast.SetComp, ast.DictComp, ast.GeneratorExp)):
            if _mentions(n.generators[0].iter, rowvals) and not isinstance(n, ast.GeneratorExp):
                out.append(n)
        elif isinstance(n, ast.Call):
            name = call_attr(n)
            if isinstance(n.func, ast.Name) and name in EXHAUSTING and n.args and _mentions(n.args[0], rowvals):
                out.append(n)
            elif isinstance(n.func, ast.Name) and name in EXHAUSTING and n.args and isinstance(n.args[0], ast.GeneratorExp) and _mentions(n.args[0].generators[0].iter, rowvals):
                out.append(n)
            elif isinstance(n.func, ast.Attribute) and n.func.attr in forcing and _mentions(n.func.value, rowvals):
                out.append(n)
            elif isinstance(n.func, ast.Attribute) and n.func.attr in ("from_iterable",) and False:
                pass
            for a in n.args:
                if isinstance(a, ast.Starred) and _mentions(a.value, rowvals):
                    out.append(n)
        elif isinstance(n, ast.Compare) and any(isinstance(o, (ast.In, ast.NotIn)) for o in n.ops):
            if any(_mentions(c, rowvals) for c in n.comparators):
                out.append(n)
        elif isinstance(n, (ast.Yield, ast.YieldFrom)) and isinstance(n, ast.YieldFrom) and _mentions(n.value, rowvals):
            out.append(n)
    return out


def _row_names_on_path(p: Path, start: int) -> set[str]:
    """Locals bound (anywhere on the path) to the result of an execute() call, plus direct call texts."""
    names: set[str] = set()
    for s in p.steps:
        n = s.node
        if s.kind == "stmt" and isinstance(n, ast.Assign) and isinstance(n.value, ast.Call) and call_attr(n.value) == "execute":
            for t in n.targets:
                if isinstance(t, ast.Name):
                    names.add(t.id)
    for s in p.steps:
        for e in step_exprs(s):
            if e is None:
                continue
            for c in ast.walk(e):
                if isinstance(c, ast.Call) and call_attr(c) == "execute":
                    names.add(src(c))
    return names


def _call_args(c: ast.Call) -> list[ast.expr]:
    """Positional and keyword argument values, in source order (a constructor argument may be passed either way)."""
    return list(c.args) + [k.value for k in c.keywords if k.arg]


def check(model, tier):
    run, ctx = new_run(
        "C18",
        tier,
        LEVEL,
        model,
        "Every path through every arm of execute(), every RowIterable constructor/__iter__/sliced and every convert_* "
        "method is scanned for forcing expressions on row-typed values; forcing methods are summarised by fixpoint.",
    )
    m = model
    run.rule("R18.1", "lazy arms of execute(), lazy iterable constructors, sliced() and convert_* contain no forcing expression", 12)
    run.rule("R18.2", "eager arms (sort, deduplication, materialization) force their input exactly once and return a built container", 3)
    run.rule("R18.3", "each lazy __iter__ iterates its source in exactly one position; no constructor stores an iterator or consumes its source", 8)
    forcing = forcing_methods(ctx)
    optional_rules.r_optional_truthiness(ctx, "R18.4", {"payload"})
    if not {"to_mapping", "to_sequence", "materialized"} <= forcing:
        raise AnalysisError(f"forcing-method summary lost a member: {sorted(forcing)}")
    run.extra["forcing_methods"] = sorted(forcing)
    ex = m.func(IT_ENGINE, "Engine.execute")
    rel = [p for p in ex.params if p != "self"][0]
    paths = ctx.paths(ex)

    def arm_of(p: Path) -> tuple[str | None, int]:
        inner = [(i, s) for i, s in enumerate(p.steps) if s.kind == "case" and s.value]
        if not inner:
            return None, -1
        i, s = inner[-1]
        pat = src(s.node.pattern)  # type: ignore[union-attr]
        return pat.split("(")[0], i

    seen_arms: set[str] = set()
    for i, p in enumerate(paths):
        if p.outcome != "return":
            continue
        arm, idx = arm_of(p)
        if arm is None:
            continue
        rows = _row_names_on_path(p, 0)
        forced = []
        for s in p.steps:
            for e in step_exprs(s):
                if e is not None:
                    forced.extend(_forcing_exprs(e, rows, forcing))
            if s.kind == "loop" and s.value and isinstance(s.node, ast.For) and src(s.node.iter) in rows:
                forced.append(s.node)
        forced = list({id(x): x for x in forced}.values())
        if arm in LAZY_ARMS:
            seen_arms.add(arm)
            inst = f"execute:{arm}:lazy"
            if forced:
                run.fail(
                    "R18.1",
                    inst,
                    f"the {arm} arm of execute() iterates its input at execute time (`{src(forced[0])[:70]}`); the operation is documented as lazy",
                    fi=ex,
                    node=forced[0],
                    details=describe(p),
                )
            else:
                run.ok("R18.1", inst, {"returns": src(p.value)[:70]})
        elif arm in EAGER_ARMS:
            seen_arms.add(arm)
            inst = f"execute:{arm}:eager-once"
            if len(forced) != 1:
                run.fail(
                    "R18.2",
                    inst,
                    f"the {arm} arm forces its input {len(forced)} time(s) ({[src(x)[:40] for x in forced]}); it must consume it exactly once at execute time",
                    fi=ex,
                    node=forced[1] if len(forced) > 1 else p.node,
                    details=describe(p),
                )
                continue
            # the returned object is / wraps the built container, not the input iterable
            v = p.value
            b = resolve_name(p, v.id) if isinstance(v, ast.Name) else v
            f0 = forced[0]
            ok = False
            if isinstance(b, ast.Call) and (b is f0 or any(x is f0 for x in ast.walk(b))):
                ok = True  # result of the forcing call itself (to_mapping / materialized)
            elif isinstance(b, ast.Call) and _call_args(b) and isinstance(_call_args(b)[0], ast.Name):
                inner = resolve_name(p, _call_args(b)[0].id)
                ok = inner is f0
            if ok and not any(src(a) in rows for a in (_call_args(b) if isinstance(b, ast.Call) else [])):
                run.ok("R18.2", inst, {"forces": src(f0)[:60], "returns": src(v)[:60]})
            else:
                run.fail("R18.2", inst, f"the {arm} arm returns `{src(v)[:60]}`, which is not the container built by its single pass over the input", fi=ex, node=p.node, details=describe(p))
    for arm in LAZY_ARMS + EAGER_ARMS:
        if arm not in seen_arms:
            raise AnalysisError(f"execute() has no returning path through a {arm} arm")
    # short-circuits at the top of execute() do not touch rows
    # convert_* methods and apply_custom_unary_operation never see rows
    eng = ctx.cls(IT_ENGINE, "Engine")
    for name, f in eng.methods.items():
        if name.startswith("convert_"):
            bad = [n for n in ast.walk(f.node) if isinstance(n, ast.Call) and call_attr(n) in ("execute",) ]
            inst = f"{name}:no-rows"
            if bad:
                run.fail("R18.1", inst, f"{name} executes a relation while converting an expression", fi=f, node=bad[0])
            else:
                run.ok("R18.1", inst)
    # RowIterable classes
    base = ctx.cls(IT_ROWS, "RowIterable")
    materialized = ctx.cls(IT_ROWS, "MaterializedRowIterable")
    for c in m.subclasses(base):
        is_mat = m.is_subclass(c, materialized)
        init = c.methods.get("__init__")
        params = set(init.params) - {"self"} if init else set()
        # which attributes hold a row source?
        sources = set()
        if init is not None:
            for n in ast.walk(init.node):
                if isinstance(n, ast.Assign) and isinstance(n.value, ast.Name) and n.value.id in params:
                    ann = init.param_annotation(n.value.id)
                    if ann is not None and "RowIterable" in src(ann):
                        for t in n.targets:
                            sources.add(src(t))
            inst = f"{c.name}.__init__"
            row_params = {p for p in params if init.param_annotation(p) is not None and "RowIterable" in src(init.param_annotation(p))}
            forced = _forcing_exprs(init.node, row_params, forcing)
            stores_iter = [n for n in ast.walk(init.node) if isinstance(n, ast.Assign) and isinstance(n.value, (ast.Call, ast.GeneratorExp)) and (isinstance(n.value, ast.GeneratorExp) or call_attr(n.value) in ("iter", "enumerate", "zip", "map", "filter", "chain", "from_iterable", "islice"))]
            if forced and not is_mat:
                run.fail("R18.3", inst, f"{c.name}.__init__ consumes its source (`{src(forced[0])[:60]}`): constructing the lazy iterable would iterate the rows", fi=init, node=forced[0])
            elif stores_iter:
                run.fail("R18.3", inst, f"{c.name}.__init__ stores an iterator (`{src(stores_iter[0])[:60]}`): the result could be iterated only once", fi=init, node=stores_iter[0])
            else:
                run.ok("R18.3", inst, {"sources": sorted(sources)})
        it = c.methods.get("__iter__")
        if it is None or it.is_abstract or is_mat:
            continue
        inst = f"{c.name}.__iter__"
        if not sources:
            raise AnalysisError(f"{c.name}: no stored row source found in __init__")
        positions = []
        for n in walk_no_nested_defs(it.node):
            if isinstance(n, ast.For) and src(n.iter) in sources:
                positions.append(n)
            elif isinstance(n, (ast.GeneratorExp, ast.ListComp, ast.SetComp, ast.DictComp)):
                for g in n.generators:
                    if src(g.iter) in sources:
                        positions.append(n)
            elif isinstance(n, ast.Call):
                for a in n.args:
                    a2 = a.value if isinstance(a, ast.Starred) else a
                    if src(a2) in sources:
                        positions.append(n)
            elif isinstance(n, ast.YieldFrom) and src(n.value) in sources:
                positions.append(n)
        eager = [n for n in positions if isinstance(n, (ast.ListComp, ast.SetComp, ast.DictComp))] + [
            n for n in positions if isinstance(n, ast.Call) and call_attr(n) in EXHAUSTING
        ]
        if len(positions) != 1:
            run.fail("R18.3", inst, f"{c.name}.__iter__ uses its source in {len(positions)} iterating positions (expected exactly one pass per iteration)", fi=it, node=positions[1] if len(positions) > 1 else it.node)
        elif eager:
            run.fail("R18.3", inst, f"{c.name}.__iter__ materialises its source (`{src(eager[0])[:60]}`) instead of streaming it", fi=it, node=eager[0])
        else:
            run.ok("R18.3", inst, {"position": src(positions[0])[:70]})
    # R18.12: what is handed to a row-iterable constructor can be iterated again
    run.rule("R18.12", "every construction of a RowIterable class in the package passes re-iterable arguments: never a generator expression, an iter/map/filter/zip/enumerate/reversed/itertools call, or a local that some assignment of the function binds to one", 3)
    ONE_SHOT = {"iter", "enumerate", "zip", "map", "filter", "reversed", "islice", "chain", "from_iterable", "starmap", "takewhile", "dropwhile", "accumulate", "compress", "tee", "zip_longest", "groupby", "pairwise", "batched", "cycle", "repeat", "count", "product"}
    row_classes = {c.name for c in m.subclasses(base)}

    def _one_shot(e: ast.AST) -> bool:
        if isinstance(e, ast.GeneratorExp):
            return True
        if isinstance(e, ast.IfExp):
            return _one_shot(e.body) or _one_shot(e.orelse)
        if isinstance(e, ast.Call):
            d = dotted(e.func) or ""
            last = d.split(".")[-1]
            if last in ONE_SHOT and (d.startswith("itertools.") or "." not in d) and last not in row_classes:
                return True
        return False

    for f in m.all_functions():
        tainted: dict[str, ast.AST] = {}
        for n in walk_no_nested_defs(f.node):
            if isinstance(n, (ast.Assign, ast.AnnAssign)) and n.value is not None and _one_shot(n.value):
                for t in n.targets if isinstance(n, ast.Assign) else [n.target]:
                    if isinstance(t, ast.Name):
                        tainted[t.id] = n.value
        for n in walk_no_nested_defs(f.node):
            if not (isinstance(n, ast.Call) and (dotted(n.func) or "").split(".")[-1] in row_classes):
                continue
            inst = f"{f.qualname}:{(dotted(n.func) or '').split('.')[-1]}"
            bad = None
            for a in list(n.args) + [k.value for k in n.keywords]:
                a2 = a.value if isinstance(a, ast.Starred) else a
                if _one_shot(a2):
                    bad = a2
                elif isinstance(a2, ast.Name) and a2.id in tainted:
                    bad = tainted[a2.id]
                elif isinstance(a2, (ast.List, ast.Tuple)) and any(_one_shot(x) or (isinstance(x, ast.Name) and x.id in tainted) for x in a2.elts):
                    bad = a2
            if bad is not None:
                run.fail("R18.12", inst, f"{f.qualname} builds a row iterable from a one-shot iterator (`{src(bad)[:70]}`): the result can be iterated only once", fi=f, node=n)
            else:
                run.ok("R18.12", inst)
    # sliced(): the generic one is lazy
    sl = base.methods.get("sliced")
    if sl is None:
        raise AnalysisError("RowIterable.sliced is missing")
    forced = _forcing_exprs(sl.node, {"self"}, forcing)
    if forced:
        run.fail("R18.1", "RowIterable.sliced", f"RowIterable.sliced consumes the rows (`{src(forced[0])[:60]}`)", fi=sl, node=forced[0])
    else:
        run.ok("R18.1", "RowIterable.sliced")
    # execute() itself: the top-level short-circuits and the payload return touch no rows
    top_forced = []
    for p in paths:
        arm, idx = arm_of(p)
        if arm is None and p.outcome == "return":
            for s in p.steps:
                for e in step_exprs(s):
                    if e is not None:
                        walrus = {n.target.id for n in ast.walk(e) if isinstance(n, ast.NamedExpr) and isinstance(n.target, ast.Name) and src(n.value) == f"{rel}.payload"}
                        top_forced.extend(_forcing_exprs(e, {f"{rel}.payload"} | walrus, forcing))
    if top_forced:
        run.fail("R18.1", "execute:short-circuits", f"execute() iterates a payload before dispatch (`{src(top_forced[0])[:60]}`)", fi=ex, node=top_forced[0])
    else:
        run.ok("R18.1", "execute:short-circuits")
    run.assume("leaf payloads supplied by callers are RowIterable objects whose __iter__ can be called repeatedly")
    # ---- R18.7 forcing methods pass over their own rows once
    run.rule("R18.7", "to_mapping / to_sequence / materialized (every override) start at most one iteration of `self` on any path: a second pass (a consistency check, a len(list(self))) runs the whole upstream pipeline again", 3)
    for c in m.subclasses(base):
        for f in c.methods.values():
            if f.name not in forcing:
                continue
            worst = 0
            worst_node = None
            for p in ctx.paths(f):
                cnt = 0
                for s in p.steps:
                    for e in step_exprs(s):
                        if e is not None:
                            fx = _forcing_exprs(e, {"self"}, forcing - {f.name}) + [
                                g for g in ast.walk(e) if isinstance(g, ast.GeneratorExp) and src(g.generators[0].iter) == "self"
                            ]
                            fx = list({id(x): x for x in fx}.values())
                            # a generator expression handed to an exhausting call is counted once (through the call)
                            fx = [x for x in fx if not (isinstance(x, ast.GeneratorExp) and any(isinstance(y, ast.Call) and x in y.args for y in fx))]
                            cnt += len(fx)
                            if fx and cnt > worst:
                                worst_node = fx[-1]
                    if s.kind == "loop" and s.value and isinstance(s.node, ast.For) and src(s.node.iter) == "self":
                        cnt += 1
                worst = max(worst, cnt)
            inst = f"{c.name}.{f.name}:one-pass"
            if worst > 1:
                run.fail("R18.7", inst, f"{c.name}.{f.name} starts {worst} iterations of its own rows on one path: every deduplication / materialization then consumes its input that many times", fi=f, node=worst_node)
            else:
                run.ok("R18.7", inst, {"passes": worst})
    from ..rules import dispatch as _dispatch

    _dispatch.r08_1_totality(ctx, rule="R18.5", scope="iteration")
    # ---- R18.6 each operand of a node is executed at most once per call
    run.rule("R18.6", "on every path through execute() each operand of the node (target, lhs, rhs) is executed at most once: an eager operation upstream is not run a second time", 6)
    from ..flow import field_access, path_calls

    for i, p in enumerate(paths):
        if p.outcome != "return":
            continue
        arm, idx = arm_of(p)
        if arm is None:
            continue
        per: dict[tuple, list] = {}
        for j, c in path_calls(p):
            if call_attr(c) == "execute" and c.args:
                fa = field_access(p, c.args[0], j)
                if fa is not None and fa[0] == rel and fa[1] and fa[1][-1] in ("target", "lhs", "rhs"):
                    per.setdefault(fa[1], []).append(c)
        for acc, calls in per.items():
            inst = f"execute:{arm}:{'.'.join(acc)}:once"
            if len(calls) > 1:
                run.fail("R18.6", inst, f"the {arm} arm executes `{'.'.join(acc)}` {len(calls)} times on one path (`{src(calls[1])[:50]}` again): a sort, deduplication or unexecuted materialization upstream consumes its input once per execution", fi=ex, node=calls[1], details=describe(p))
            else:
                run.ok("R18.6", inst)
    _dispatch.r_execute_direct_operands(ctx, "R18.10")
    # ---- R18.11 slicing is lazy except where the rows are already in a sequence
    run.rule(
        "R18.11",
        "sliced() builds a container only in RowSequence (the documented exception: a sequence is cut directly); every "
        "other row-iterable class answers with a lazy SliceRowIterable or delegates: an override that walks a mapping or "
        "a chain when the slice is *executed* moves the work from iteration time to execute() time and freezes the rows",
        2,
    )
    n_sl = 0
    for c in m.subclasses(base):
        f = c.methods.get("sliced")
        if f is None or f.is_abstract:
            continue
        n_sl += 1
        inst = f"{c.name}.sliced:lazy"
        if c.name == "RowSequence":
            run.ok("R18.11", inst, {"why": "the documented eager case"})
            continue
        eager = [
            x
            for x in ast.walk(f.node)
            if isinstance(x, ast.Call)
            and (
                (isinstance(x.func, ast.Name) and x.func.id in ("dict", "list", "tuple", "set", "frozenset", "sorted", "RowSequence", "RowMapping", "len", "sum", "min", "max"))
                or (isinstance(x.func, ast.Attribute) and x.func.attr in ("to_sequence", "to_mapping", "materialized"))
            )
        ] + [x for x in ast.walk(f.node) if isinstance(x, (ast.ListComp, ast.DictComp, ast.SetComp, ast.For))]
        # len() of a *materialized* member is a stored number, not a pass over rows
        eager = [x for x in eager if not (isinstance(x, ast.Call) and isinstance(x.func, ast.Name) and x.func.id in ("len", "list") and c.name == "ChainRowIterable")]
        if eager:
            run.fail(
                "R18.11",
                inst,
                f"{c.name}.sliced builds `{src(eager[0])[:60]}` when it is called, i.e. inside execute(): the target's rows are walked at execute time and the result no longer follows later iterations of the target",
                fi=f,
                node=eager[0],
            )
        else:
            run.ok("R18.11", inst)
    if n_sl < 2:
        raise AnalysisError("fewer than two sliced() implementations found")
    # ---- R18.9 what a result computes is fixed when execute() returns
    run.rule(
        "R18.9",
        "the callables the iteration engine's converters return consult the engine no more: no lambda or nested function "
        "inside a method of the engine calls a method of `self` (get_function, convert_*): everything is resolved at conversion time, so "
        "iterating a result twice gives the same rows whatever happened to the engine's function registry in between",
        4,
    )
    raw = ast.parse(ex.module.source)
    eng_raw = next((n for n in raw.body if isinstance(n, ast.ClassDef) and n.name == ex.cls.name), None)
    if eng_raw is None:
        raise AnalysisError("iteration Engine class not found in the source text")
    n_conv = 0
    for fn in eng_raw.body:
        if not isinstance(fn, ast.FunctionDef):
            continue
        n_conv += 1
        late = []
        for inner in ast.walk(fn):
            if inner is fn or not isinstance(inner, (ast.Lambda, ast.FunctionDef)):
                continue
            for c in ast.walk(inner):
                if isinstance(c, ast.Call) and isinstance(c.func, ast.Attribute) and isinstance(c.func.value, ast.Name) and c.func.value.id == "self":
                    late.append(c)
        # a bound method of the engine handed on as a value (functools.partial(self.execute, x), key=self.f) runs later too
        parents = {id(ch): par for par in ast.walk(fn) for ch in ast.iter_child_nodes(par)}
        own_methods = {x.name for x in eng_raw.body if isinstance(x, ast.FunctionDef)}
        for a in ast.walk(fn):
            if isinstance(a, ast.Attribute) and isinstance(a.value, ast.Name) and a.value.id == "self" and a.attr in own_methods and isinstance(a.ctx, ast.Load):
                par = parents.get(id(a))
                is_prop = any(isinstance(d, ast.Name) and d.id in ("property", "cached_property") for x in eng_raw.body if isinstance(x, ast.FunctionDef) and x.name == a.attr for d in x.decorator_list)
                if not is_prop and not (isinstance(par, ast.Call) and par.func is a):
                    late.append(ast.Call(func=a, args=[], keywords=[], lineno=a.lineno, col_offset=a.col_offset, end_lineno=a.lineno, end_col_offset=a.col_offset))
        inst = f"{fn.name}:resolved-at-conversion"
        if late:
            run.fail(
                "R18.9",
                inst,
                f"`{src(late[0])[:60]}` is evaluated inside the callable {fn.name} returns, i.e. once per row at iteration time: the rows of an already executed relation then depend on the "
                "state of the engine (its `functions` registry, an overridden hook) at the time they are iterated, and two iterations of one result can differ",
                file=ex.module.path,
                line=late[0].lineno,
                func=f"{ex.cls.name}.{fn.name}",
            )
        else:
            run.ok("R18.9", inst)
    if n_conv < 3:
        raise AnalysisError("the iteration engine has fewer than three convert_* methods")
    # ---- R18.8 a materialization is evaluated once for all
    run.rule(
        "R18.8",
        "every returning path of execute()'s Materialization arm attaches the rows it returns to the relation "
        "(relation.attach_payload(<returned value>)), whatever kind of iterable they are: without the payload the "
        "short-circuit at the top of execute() never applies and each later execute() runs the whole upstream again",
        1,
    )
    n_mat = 0
    for i, p in enumerate(paths):
        arm, idx = arm_of(p)
        if arm != "Materialization" or p.outcome != "return":
            continue
        n_mat += 1
        inst = f"execute:Materialization:path{i}:cached"
        att = [(j, c) for j, c in path_calls(p, idx) if call_attr(c) == "attach_payload" and isinstance(c.func, ast.Attribute) and src(c.func.value) == rel and c.args]
        rv = p.value
        ok = False
        for j, c in att:
            a = c.args[0]
            if src(a) == src(rv):
                ok = True
            elif isinstance(a, ast.Name) and isinstance(rv, ast.Name):
                ea, er = env_at(p, j).get(a.id), env_at(p).get(rv.id)
                ok = ok or (isinstance(ea, ast.AST) and isinstance(er, ast.AST) and src(ea) == src(er))
            elif isinstance(rv, ast.Attribute) and src(rv) == f"{rel}.payload":
                ok = True
        if ok:
            run.ok("R18.8", inst)
        else:
            run.fail(
                "R18.8",
                inst,
                f"a path through the Materialization arm returns `{src(rv)[:50]}` without having attached it to `{rel}`: the materialization is evaluated again by every later execute() "
                "(a sort or deduplication upstream consumes its input once more each time)",
                fi=ex,
                node=p.node,
                details=describe(p),
            )
    if n_mat == 0:
        raise AnalysisError("execute() has no returning Materialization arm")
    from ..rules.foundation import run_foundation

    run_foundation(ctx, "18")
    return run
