"""C01 - the iteration engine executes the applied operation sequence exactly."""

from __future__ import annotations

import ast

from ..astutil import AnalysisError, call_attr, dotted, iter_calls, kw, pattern_captures, src
from ..facts import has_fact, path_facts
from ..flow import backward_slice, case_index, path_calls, returned_exprs
from ..paths import Path, env_at, resolve_name
from ..rules import dispatch, expressions, merge, mutation, structure, triviality, typing as typing_rules
from ..rules import optional as optional_rules
from .common import IT_ENGINE, IT_ROWS, Ctx, describe, new_run

LEVEL = "other"
LEVEL_TEXT = (
    "Decides the parts of faithfulness that are visible in the shape of iteration.Engine.execute and the RowIterable "
    "classes: the dispatch is total over the closed operation set; every semantic field of each operation flows into the "
    "iterable returned for it; chain concatenates lhs then rhs; every attribute a row iterable stores is used by its "
    "iteration, the slice iterable tests `n >= start` / stops at `stop` before yielding and counts from 0; the sort arm "
    "is the least-significant-group-first sequence of stable sorts with reverse = not ascending; deduplication keys on "
    "the key columns of the relation and keeps first-occurrence order; and (shared with C05) merging/eliding at insertion "
    "follows the simplify discipline.  That the produced rows equal a reference evaluation is a runtime statement and is "
    "not decided."
)
LEVEL_NOTE = "Trusted: python's list.sort is stable; dict preserves insertion order; itertools.groupby groups consecutive items.  Row equality is not decided."
TECHNIQUE = "dispatch totality + per-arm field-coverage slices + idiom shape rules on enumerated ast paths"

FIELDS = {
    "Calculation": ("tag", "expression"),
    "Projection": ("columns",),
    "Selection": ("predicate",),
    "Slice": ("start", "stop"),
    "Sort": ("terms",),
}


def _arm(ctx: Ctx, f, cname: str, subject: str | None = None) -> list[tuple[int, Path]]:
    if subject is None:
        rel = [q for q in f.params if q != "self"][0]
        hint = "BinaryOperationRelation" if cname in ("Chain", "Join") else "UnaryOperationRelation"
        subject = dispatch.inner_subject(f, rel, "operation", hint)
    out = []
    for p in ctx.paths(f):
        i = case_index(p, cname, subject)
        if i >= 0 and p.outcome == "return":
            out.append((i, p))
    return out


def check(model, tier):
    run, ctx = new_run("C01", tier, LEVEL, model, "Dispatch totality, field/operand coverage, iterable shapes, the multi-pass sort idiom and the deduplication container are decided; row values are not.")
    m = model
    ex = m.func(IT_ENGINE, "Engine.execute")
    rel = [p for p in ex.params if p != "self"][0]

    dispatch.r08_1_totality(ctx, rule="R01.1", scope="iteration")

    # ---- R01.2 operation-field coverage
    run.rule("R01.2", "every semantic field of each operation flows into the iterable execute() returns for it", 8)
    for cname, fields in FIELDS.items():
        arms = _arm(ctx, ex, cname)
        if not arms:
            raise AnalysisError(f"execute() has no returning {cname} arm")
        for fld in fields:
            inst = f"{cname}.{fld}"
            ok = True
            for i, p in arms:
                sl = backward_slice(p, [p.value], start=i, control=True)
                caps = pattern_captures(p.steps[i].node.pattern)  # type: ignore[union-attr]
                capname = next((n for n, a in caps.items() if a == (fld,)), None)
                used = sl.reads(dispatch.inner_subject(ex, rel, "operation", "UnaryOperationRelation"), fld) if capname is None else any(isinstance(n, ast.Name) and n.id == capname for e in sl.exprs for n in ast.walk(e))
                if not used:
                    ok = False
            if ok:
                run.ok("R01.2", inst)
            else:
                run.fail("R01.2", inst, f"the {cname} arm of execute() does not use the operation's `{fld}`: two different {cname} operations would execute alike", fi=ex, node=arms[0][1].node)
    # the target rows flow into every unary arm's result
    for cname in list(FIELDS) + ["Deduplication"]:
        for i, p in _arm(ctx, ex, cname):
            sl = backward_slice(p, [p.value], control=False)
            if any(call_attr(c) == "execute" for c in sl.calls):
                run.ok("R01.2", f"{cname}:consumes-target")
            else:
                run.fail("R01.2", f"{cname}:consumes-target", f"the result of the {cname} arm does not depend on the executed target", fi=ex, node=p.node)
    # the extension hook for custom operations gets the operation and the node's *target* (what the documented
    # implementation pattern executes), not the node itself
    from ..flow import field_access as _fa

    hooks = 0
    for p in ctx.paths(ex):
        for j, c in path_calls(p):
            if call_attr(c) != "apply_custom_unary_operation":
                continue
            hooks += 1
            fas = [_fa(p, a, j) for a in c.args]
            ok = len(fas) == 2 and all(x is not None and x[0] == rel for x in fas) and fas[0][1][-1:] == ("operation",) and fas[1][1][-1:] == ("target",)
            if ok:
                run.ok("R01.2", "custom-unary-hook:arguments")
            else:
                run.fail("R01.2", "custom-unary-hook:arguments", f"the custom-operation hook is called as `{src(c)[:70]}`: it must receive (<the node's operation>, <the node's target>) - given the node itself, the documented implementation (execute the target, then filter) recurses for ever", fi=ex, node=c)
    if hooks == 0:
        run.fail(
            "R01.2",
            "custom-unary-hook:dispatch",
            "execute() no longer hands unary operations it does not know to apply_custom_unary_operation: an engine subclass that implements a custom operation through that hook "
            "(the documented extension point) gets its target's rows back unfiltered, or an internal error, instead of its own implementation",
            fi=ex,
        )
    # every tree is evaluated by its own engine: foreign relations are refused up front, and the upstream tree of a
    # transfer between iteration engines is executed by the engine it lives in (its functions, its custom operations)
    guard_ok = any(
        p.outcome == "raise" and p.raises("EngineError") and has_fact(path_facts(p), "EQ", tuple(sorted((f"{rel}.engine", "self"))), False) and not any(s.kind == "case" for s in p.steps)
        for p in ctx.paths(ex)
    )
    if guard_ok:
        run.ok("R01.2", "execute:own-engine-only")
    else:
        run.fail("R01.2", "execute:own-engine-only", f"execute() does not refuse (EngineError) a relation whose engine is not this engine (`{rel}.engine != self`) before anything else", fi=ex)
    tarms = _arm(ctx, ex, "Transfer", rel)
    for i, p in tarms:
        v = p.value
        if not (isinstance(v, ast.Call) and call_attr(v) == "execute"):
            continue
        recv = v.func.value if isinstance(v.func, ast.Attribute) else None
        fa_arg = _fa(p, v.args[0]) if v.args else None
        fa_recv = _fa(p, recv) if recv is not None else None
        ok = fa_arg is not None and fa_arg[1][-1:] == ("target",) and fa_recv is not None and fa_recv == (fa_arg[0], fa_arg[1] + ("engine",))
        if ok:
            run.ok("R01.2", "execute:Transfer:source-engine-executes")
        else:
            run.fail("R01.2", "execute:Transfer:source-engine-executes", f"the Transfer arm evaluates the source tree with `{src(v)[:60]}`: it must be <target>.engine.execute(<target>) - the source engine's function registry and custom operations define what the tree means", fi=ex, node=p.node)
    # ... and which sources it accepts: every iteration engine, not only those of the destination's own class
    seen_t = 0
    for i, p in tarms:
        for fct in path_facts(p):
            if fct.kind == "ISINSTANCE" and fct.args[0].endswith(".engine"):
                seen_t += 1
                inst = "execute:Transfer:any-iteration-engine"
                if fct.args[1] == ex.cls.name:
                    run.ok("R01.2", inst)
                else:
                    run.fail(
                        "R01.2",
                        inst,
                        f"the Transfer arm accepts a source engine by `isinstance({fct.args[0]}, {fct.args[1]})`: the documented case is a transfer from any other iteration engine "
                        f"(`isinstance(..., {ex.cls.name})`, subclasses included); a test against the destination's own class refuses a plain engine feeding a subclass",
                        fi=ex,
                        node=fct.node,
                    )
    if tarms and seen_t == 0:
        run.fail("R01.2", "execute:Transfer:any-iteration-engine", "the Transfer arm no longer tests that the source engine is an iteration engine before executing the source tree itself", fi=ex)
    # sort terms: expression and direction of every term
    for i, p in _arm(ctx, ex, "Sort"):
        sl = backward_slice(p, [p.value], start=i, control=True)
        txt = " ".join(src(e) for e in sl.exprs)
        for part in ("expression", "ascending"):
            if part in txt:
                run.ok("R01.2", f"Sort.terms.{part}")
            else:
                run.fail("R01.2", f"Sort.terms.{part}", f"the Sort arm ignores each term's `{part}`", fi=ex, node=p.node)
    # deduplication key = key columns of the relation
    for i, p in _arm(ctx, ex, "Deduplication"):
        sl = backward_slice(p, [p.value], start=i)
        gens = [n for e in sl.exprs for n in ast.walk(e) if isinstance(n, (ast.GeneratorExp, ast.ListComp))]
        ok = any(src(g.generators[0].iter) == f"{rel}.columns" and any("is_key" in src(c) and not isinstance(c, ast.UnaryOp) for c in g.generators[0].ifs) and src(g.elt) == src(g.generators[0].target) for g in gens)
        v = p.value
        okc = isinstance(v, ast.Call) and call_attr(v) == "to_mapping"
        if ok and okc:
            run.ok("R01.2", "Deduplication:key-columns")
        else:
            run.fail("R01.2", "Deduplication:key-columns", f"deduplication is not keyed on the key columns of the relation ({rel}.columns filtered by is_key) through to_mapping", fi=ex, node=p.node)

    # ---- R01.3 chain
    run.rule("R01.3", "chain executes both operands and concatenates lhs before rhs", 2)
    arms = _arm(ctx, ex, "Chain")
    if not arms:
        raise AnalysisError("execute() has no Chain arm")
    for i, p in arms:
        v = p.value
        execs = [c for c in ast.walk(v) if isinstance(c, ast.Call) and call_attr(c) == "execute"]
        caps = []
        for c in sorted(execs, key=lambda c: (c.lineno, c.col_offset)):
            from ..flow import field_access

            fa = field_access(p, c.args[0]) if c.args else None
            caps.append(fa[1] if fa is not None and fa[0] == rel else None)
        if caps == [("lhs",), ("rhs",)] and isinstance(v, ast.Call) and (dotted(v.func) or "").split(".")[-1] == "ChainRowIterable":
            run.ok("R01.3", "chain:lhs-then-rhs", {"returns": src(v)})
        else:
            run.fail("R01.3", "chain:lhs-then-rhs", f"the Chain arm returns `{src(v)[:70]}`: expected the executed lhs followed by the executed rhs", fi=ex, node=p.node)
    ch = ctx.cls(IT_ROWS, "ChainRowIterable").methods.get("__iter__")
    if ch is not None:
        rets = [src(p.value) for p in ctx.paths(ch) if p.outcome == "return"]
        if rets and all(r in ("itertools.chain.from_iterable(self.chain)", "itertools.chain(*self.chain)", "chain.from_iterable(self.chain)") for r in rets):
            run.ok("R01.3", "ChainRowIterable:order")
        else:
            run.fail("R01.3", "ChainRowIterable:order", f"ChainRowIterable iterates `{rets}` instead of its members in order", fi=ch)

    # ---- R01.4 row iterables
    run.rule("R01.4", "row iterables use everything they store; slice iterable yields n >= start, stops at stop before yielding, counts from 0; calculation/projection/selection row shapes", 12)
    base = ctx.cls(IT_ROWS, "RowIterable")
    for c in m.subclasses(base, strict=True):
        init = c.methods.get("__init__")
        if init is None:
            continue
        if m.method(c, "__iter__") is None or m.method(c, "__iter__").is_abstract:
            continue  # an intermediate base that only stores: its concrete subclasses are the ones that iterate
        stored = [src(t)[5:] for n in ast.walk(init.node) if isinstance(n, ast.Assign) for t in n.targets if src(t).startswith("self.")]
        readers = [f for k in m.mro(c) for f in k.methods.values() if f.name != "__init__"]
        for attr in stored:
            inst = f"{c.name}.{attr}:used"
            used = any(isinstance(n, ast.Attribute) and n.attr == attr and src(n.value) == "self" and isinstance(n.ctx, ast.Load) for f in [c.methods.get("__iter__")] + readers if f is not None for n in ast.walk(f.node))
            it = c.methods.get("__iter__")
            used_in_iter = it is not None and any(isinstance(n, ast.Attribute) and n.attr == attr and src(n.value) == "self" for n in ast.walk(it.node))
            if used_in_iter or (used and attr in ("unique_key",)):
                run.ok("R01.4", inst)
            else:
                run.fail("R01.4", inst, f"{c.name} stores `{attr}` but its iteration never uses it", fi=it or init)
    sl_cls = ctx.cls(IT_ROWS, "SliceRowIterable")
    it = sl_cls.methods["__iter__"]
    enum = [c for c in iter_calls(it.node) if call_attr(c) == "enumerate"]
    if enum and len(enum[0].args) == 1 and not enum[0].keywords and src(enum[0].args[0]) == "self.target":
        run.ok("R01.4", "SliceRowIterable:counts-from-0")
    else:
        run.fail("R01.4", "SliceRowIterable:counts-from-0", "SliceRowIterable does not number the target's rows from 0 with enumerate(self.target)", fi=it)
    nvar = None
    for n in ast.walk(it.node):
        if isinstance(n, ast.For) and isinstance(n.target, ast.Tuple) and n.target.elts:
            nvar = src(n.target.elts[0])
    yields = stops = 0
    for i, p in enumerate(ctx.paths(it)):
        if not any(s.kind == "loop" and s.value for s in p.steps):
            continue
        facts = path_facts(p)
        yielded = any(isinstance(n, ast.Yield) for s in p.steps if s.kind == "stmt" for n in ast.walk(s.node))
        stop_hit = any((f.kind == "EQ" and f.polarity and set(f.args) == {nvar, "self.stop"}) or (f.kind == "LE" and f.polarity and f.args == ("self.stop", nvar)) for f in facts)
        ge_start = has_fact(facts, "LE", ("self.start", nvar), True) or has_fact(facts, "LT", (nvar, "self.start"), False)
        lt_start = has_fact(facts, "LE", ("self.start", nvar), False) or has_fact(facts, "LT", (nvar, "self.start"), True)
        inst = f"SliceRowIterable:path{i}"
        if p.outcome == "return" and not yielded:
            stops += 1
            if stop_hit and has_fact(facts, "IS", ("None", "self.stop"), False):
                run.ok("R01.4", inst + ":stop")
            else:
                run.fail("R01.4", inst + ":stop", "the slice iterable stops on a condition other than `stop is not None and n == stop`", fi=it, node=p.node, details=describe(p))
        elif yielded:
            yields += 1
            stop_texts = {nvar, "self.stop"}
            def _about_stop(f):
                if f.kind == "OR":
                    return any(_about_stop(x) for alt in f.parts for x in alt)
                return (f.kind in ("EQ", "LE", "LT") and set(f.args) == stop_texts) or (f.kind == "IS" and "self.stop" in f.args)
            stop_tested_first = any(_about_stop(f) for f in facts)
            if ge_start and not stop_hit and stop_tested_first:
                run.ok("R01.4", inst + ":yield")
            else:
                run.fail("R01.4", inst + ":yield", "the slice iterable yields a row on a condition other than `n >= start` after the stop test", fi=it, node=it.node, details=describe(p))
        else:
            if lt_start or not ge_start:
                run.ok("R01.4", inst + ":skip")
            else:
                run.fail("R01.4", inst + ":skip", "the slice iterable skips a row although n >= start", fi=it, details=describe(p))
    if not (yields and stops):
        raise AnalysisError("SliceRowIterable.__iter__ has no yielding or no stopping path")
    def _calc_shape(e, rv):
        if not isinstance(e, ast.Dict):
            return False
        keys = [src(k) if k is not None else None for k in e.keys]
        vals = [src(v) for v in e.values]
        if None not in keys or "self.tag" not in keys:
            return False
        return vals[keys.index(None)] == rv and vals[keys.index("self.tag")] == f"self.callable({rv})" and keys.index(None) < keys.index("self.tag") and len(keys) == 2

    def _proj_shape(e, rv):
        return isinstance(e, ast.DictComp) and src(e.generators[0].iter) == "self.columns" and src(e.key) == src(e.generators[0].target) and src(e.value) == f"{rv}[{src(e.key)}]" and not e.generators[0].ifs

    for cname, check_fn, what in (
        ("CalculationRowIterable", _calc_shape, "{**row, self.tag: self.callable(row)}"),
        ("ProjectionRowIterable", _proj_shape, "{k: row[k] for k in self.columns}"),
    ):
        itf = ctx.cls(IT_ROWS, cname).methods["__iter__"]
        gens = [n for n in ast.walk(itf.node) if isinstance(n, ast.GeneratorExp) and src(n.generators[0].iter) == "self.target"]
        if gens and check_fn(gens[0].elt, src(gens[0].generators[0].target)) and not gens[0].generators[0].ifs:
            run.ok("R01.4", f"{cname}:row-shape")
        else:
            run.fail("R01.4", f"{cname}:row-shape", f"{cname} does not produce {what} for every target row", fi=itf)
    itf = ctx.cls(IT_ROWS, "SelectionRowIterable").methods["__iter__"]
    gens = [n for n in ast.walk(itf.node) if isinstance(n, ast.GeneratorExp) and src(n.generators[0].iter) == "self.target"]
    if gens and src(gens[0].elt) == src(gens[0].generators[0].target) and [src(c) for c in gens[0].generators[0].ifs] == [f"self.callable({src(gens[0].generators[0].target)})"]:
        run.ok("R01.4", "SelectionRowIterable:row-shape")
    else:
        run.fail("R01.4", "SelectionRowIterable:row-shape", "SelectionRowIterable does not keep exactly the rows for which the predicate callable is true", fi=itf)
    from ..astutil import arg_or_kw

    def _resolved(p, e):
        if isinstance(e, ast.Name):
            b = resolve_name(p, e.id)
            if isinstance(b, ast.expr):
                return b
        return e

    rs = ctx.cls(IT_ROWS, "RowSequence").methods.get("sliced")
    if rs is not None:
        ps = [q for q in rs.params if q != "self"]
        ok = True
        rets = []
        for p in ctx.paths(rs):
            if p.outcome != "return":
                continue
            v = p.value
            rets.append(src(v))
            a = _resolved(p, arg_or_kw(v, 0, "rows")) if isinstance(v, ast.Call) and (dotted(v.func) or "") == "RowSequence" else None
            if a is None or src(a) != f"self.rows[{ps[0]}:{ps[1]}]":
                ok = False
        if ok and rets:
            run.ok("R01.4", "RowSequence.sliced")
        else:
            run.fail("R01.4", "RowSequence.sliced", f"RowSequence.sliced returns {rets} instead of the [start:stop] window of its rows", fi=rs)
    bs = base.methods.get("sliced")
    if bs is not None:
        ps = [q for q in bs.params if q != "self"]
        ok = True
        rets = []
        for p in ctx.paths(bs):
            if p.outcome != "return":
                continue
            v = p.value
            rets.append(src(v))
            if not (isinstance(v, ast.Call) and (dotted(v.func) or "") == "SliceRowIterable"):
                ok = False
                continue
            got = [arg_or_kw(v, 0, "target"), arg_or_kw(v, 1, "start"), arg_or_kw(v, 2, "stop")]
            if [src(_resolved(p, g)) if g is not None else None for g in got] != ["self", ps[0], ps[1]]:
                ok = False
        if ok and rets:
            run.ok("R01.4", "RowIterable.sliced")
        else:
            run.fail("R01.4", "RowIterable.sliced", f"RowIterable.sliced returns {rets}", fi=bs)
    # the Slice arm hands start and stop over in order
    for i, p in _arm(ctx, ex, "Slice"):
        v = p.value
        caps = pattern_captures(p.steps[i].node.pattern)  # type: ignore[union-attr]
        a = [caps.get(src(x)) for x in v.args] if isinstance(v, ast.Call) else []
        if isinstance(v, ast.Call) and call_attr(v) == "sliced" and a == [("start",), ("stop",)]:
            run.ok("R01.4", "execute:Slice:start-stop-order")
        else:
            run.fail("R01.4", "execute:Slice:start-stop-order", f"the Slice arm calls `{src(v)}`: expected sliced(<start>, <stop>)", fi=ex, node=p.node)

    # ---- R01.5 sort idiom
    run.rule("R01.5", "multi-pass sort: groups of consecutive same-direction terms, sorted least-significant group first with the stable list.sort and reverse = not ascending", 3)
    arms = _arm(ctx, ex, "Sort")
    if not arms:
        raise AnalysisError("execute() has no Sort arm")
    entered = [(i, p) for i, p in arms if any(s.kind == "loop" and s.value for s in p.steps[i:])]
    if not entered:
        raise AnalysisError("the Sort arm no longer sorts in a loop over term groups: rule cannot decide it")
    for i, p in entered:
        caps = pattern_captures(p.steps[i].node.pattern)  # type: ignore[union-attr]
        terms_v = next((n for n, a in caps.items() if a == ("terms",)), "operation.terms")
        loop = next(s for s in p.steps[i:] if s.kind == "loop" and s.value)
        lnode = loop.node
        assert isinstance(lnode, ast.For)
        itx = lnode.iter
        reversed_ok = (isinstance(itx, ast.Subscript) and src(itx.slice) == "::-1") or (isinstance(itx, ast.Call) and call_attr(itx) == "reversed")
        groups_name = src(itx.value) if isinstance(itx, ast.Subscript) else (src(itx.args[0]) if isinstance(itx, ast.Call) and itx.args else "")
        gdef = resolve_name(p, groups_name) if groups_name.isidentifier() else None
        if reversed_ok:
            run.ok("R01.5", "sort:least-significant-first")
        else:
            run.fail("R01.5", "sort:least-significant-first", f"the sort passes run over `{src(itx)}`: they must run from the last group to the first so that earlier terms win", fi=ex, node=lnode)
        ok_group = False
        if isinstance(gdef, ast.ListComp):
            g = gdef.generators[0]
            gb = g.iter
            ok_group = isinstance(gb, ast.Call) and call_attr(gb) == "groupby" and gb.args and src(gb.args[0]) == terms_v and ("ascending" in src(kw(gb, "key") or (gb.args[1] if len(gb.args) > 1 else ast.Constant(0))))
            # each group's callables: every term's expression, in order
            inner = [n for n in ast.walk(gdef.elt) if isinstance(n, (ast.ListComp, ast.GeneratorExp))]
            tgt = g.target.elts if isinstance(g.target, ast.Tuple) else []
            grp = src(tgt[1]) if len(tgt) == 2 else ""
            ok_group = ok_group and any(src(n.generators[0].iter) == grp and not n.generators[0].ifs and "expression" in src(n.elt) and "convert_column_expression" in src(n.elt) for n in inner)
            ok_group = ok_group and isinstance(gdef.elt, ast.Tuple) and len(tgt) == 2 and src(gdef.elt.elts[0]) == src(tgt[0])
        from ..paths import _binds as _pbinds

        rebound = [s for s in p.steps[i + 1 :] if s.kind == "stmt" and terms_v in _pbinds(s)]
        if rebound:
            ok_group = False
            run.fail("R01.5", "sort:terms-as-given", f"the Sort arm re-binds `{terms_v}` (`{src(rebound[0].node)[:70]}`) before sorting: the passes no longer run over the operation's own terms, in order, each with its own direction", fi=ex, node=rebound[0].node)
        if ok_group:
            run.ok("R01.5", "sort:groups")
        else:
            run.fail("R01.5", "sort:groups", "sort terms are not grouped by consecutive equal direction with every term's expression converted in order", fi=ex, node=lnode)
        sorts = [c for _, c in path_calls(p, i) if call_attr(c) == "sort"]
        lt = lnode.target.elts if isinstance(lnode.target, ast.Tuple) else []
        asc_v = src(lt[0]) if len(lt) == 2 else ""
        call_v = src(lt[1]) if len(lt) == 2 else ""
        ok_sort = False
        if sorts:
            c = sorts[0]
            key = kw(c, "key")
            rev = kw(c, "reverse")
            ok_key = isinstance(key, ast.Lambda) and isinstance(key.body, ast.Call) and call_attr(key.body) == "tuple" and any(isinstance(n, (ast.GeneratorExp, ast.ListComp)) and src(n.generators[0].iter) == call_v and not n.generators[0].ifs for n in ast.walk(key.body))
            ok_rev = isinstance(rev, ast.UnaryOp) and isinstance(rev.op, ast.Not) and src(rev.operand) == asc_v
            ok_sort = ok_key and ok_rev
            rows_name = src(c.func.value) if isinstance(c.func, ast.Attribute) else ""
            v = p.value
            v_args = (list(v.args) + [k.value for k in v.keywords if k.arg]) if isinstance(v, ast.Call) else []
            ok_sort = ok_sort and bool(v_args) and src(v_args[0]) == rows_name
        if ok_sort:
            run.ok("R01.5", "sort:stable-pass")
        else:
            run.fail("R01.5", "sort:stable-pass", "each pass must be <rows>.sort(key=<tuple of the group's callables>, reverse=not <group's ascending>) on the list that is returned", fi=ex, node=sorts[0] if sorts else lnode)

    # ---- R01.6 deduplication container
    run.rule("R01.6", "to_mapping builds an insertion-ordered mapping keyed by the requested key over one pass of the rows; RowMapping returns itself only for the same key", 3)
    tm = base.methods.get("to_mapping")
    if tm is None:
        raise AnalysisError("RowIterable.to_mapping is missing")
    uk = [q for q in tm.params if q != "self"][0]
    ok = False
    for p in ctx.paths(tm):
        v = p.value
        if isinstance(v, ast.Call) and (dotted(v.func) or "") == "RowMapping":
            a_key = _resolved(p, arg_or_kw(v, 0, "unique_key"))
            d = _resolved(p, arg_or_kw(v, 1, "rows"))
            if a_key is None or src(a_key) != uk or not isinstance(d, ast.DictComp):
                continue
            g = d.generators[0]
            ok = src(g.iter) == "self" and not g.ifs and src(d.value) == src(g.target)
            key = d.key
            ok = ok and isinstance(key, ast.Call) and call_attr(key) == "tuple" and any(isinstance(n, (ast.GeneratorExp, ast.ListComp)) and src(n.generators[0].iter) == uk and src(n.elt) == f"{src(g.target)}[{src(n.generators[0].target)}]" for n in ast.walk(key))
    if ok:
        run.ok("R01.6", "RowIterable.to_mapping")
    else:
        run.fail("R01.6", "RowIterable.to_mapping", "to_mapping does not build {tuple(row[k] for k in unique_key): row for row in self}", fi=tm)
    rm = ctx.cls(IT_ROWS, "RowMapping")
    tm2 = rm.methods.get("to_mapping")
    if tm2 is not None:
        uk2 = [q for q in tm2.params if q != "self"][0]
        for i, p in enumerate(ctx.paths(tm2)):
            v = p.value
            facts = path_facts(p)
            if src(v) == "self":
                if has_fact(facts, "EQ", tuple(sorted((uk2, "self.unique_key"))), True):
                    run.ok("R01.6", f"RowMapping.to_mapping:path{i}")
                else:
                    run.fail("R01.6", f"RowMapping.to_mapping:path{i}", "RowMapping.to_mapping returns itself although the requested key may differ from its own", fi=tm2, node=p.node)
            elif isinstance(v, ast.Call) and src(v.func) == "super().to_mapping" and [src(a) for a in v.args] == [uk2]:
                run.ok("R01.6", f"RowMapping.to_mapping:path{i}")
            else:
                run.fail("R01.6", f"RowMapping.to_mapping:path{i}", f"RowMapping.to_mapping returns `{src(v)}`", fi=tm2, node=p.node)
    rmi = rm.methods.get("__iter__")
    if rmi is not None and [src(p.value) for p in ctx.paths(rmi)] == ["iter(self.rows.values())"]:
        run.ok("R01.6", "RowMapping.__iter__")
    else:
        run.fail("R01.6", "RowMapping.__iter__", "RowMapping does not iterate its rows in insertion order (self.rows.values())", fi=rmi or tm)

    # ---- shared: merging at insertion, do-nothing predicates, short-circuits, slicing types
    merge.r05_1_simplify_discipline(ctx, rule="R01.7")
    triviality.r05_2_noop_predicates_agree(ctx, rule="R01.8")
    merge.r05_4_then(ctx, rule="R01.9")
    merge.r05_5_operations_stored_as_given(ctx, rule="R01.14")
    merge.r05_6_who_may_elide(ctx, rule="R01.15")
    structure.r06_1_flags(ctx, rule="R01.10")
    expressions.r13_1_as_trivial(ctx, rule="R01.13")
    mutation.r09_4_no_shared_mutation(ctx)
    typing_rules.r08_5_slice_subscripts(ctx, rule="R01.11")
    optional_rules.r_optional_truthiness(ctx, "R01.12", None, ("iteration/", "_operations/", "_relation.py", "_unary_operation.py"))
    from ..rules import purity

    purity.r_engine_stateless(ctx, "R01.16", IT_ENGINE, ("execute", "convert_column_expression", "convert_predicate", "append_unary", "append_binary"))
    run.assume("max_rows == 0 / is_join_identity short-circuits rely on truthful bounds (C06)")
    from ..rules import bounds as _bounds

    _bounds.r06_7_bound_formulas(ctx, rule="R01.17")
    # reordering between two iteration engines (preferred_engine) must not change rows: the C04 commutation rules
    from ..rules import commute as _commute

    expressions.r12_2_function_lookup(ctx, rule="R01.19")  # how a function name becomes a callable decides the rows of every selection/calculation
    from ..rules import mergeeval as _mergeeval

    _mergeeval.r05_9_merge_semantics(ctx, rule="R01.18")
    _commute.r04_1_matrix(ctx)
    _commute.r04_2_failure_hands_back(ctx)
    _commute.r04_4_set_formulas(ctx)
    from ..rules import dispatch as _dispatch1
    from ..rules import rowseval as _rowseval1

    _dispatch1.r_only_deduplication_merges_rows(ctx, "R01.20")
    _rowseval1.r_sliced_is_window(ctx, "R01.21")
    _dispatch1.r_execute_direct_operands(ctx, "R01.22")
    _dispatch1.r_to_mapping_shortcut(ctx, "R01.23")
    from ..rules.foundation import run_foundation

    run_foundation(ctx, "01")
    return run
