"""C16 - Diagnostics never dooms a non-empty relation; exact with an executor."""

from __future__ import annotations

import ast

from ..astutil import AnalysisError, call_attr, dotted, src
from ..facts import Fact, path_facts
from ..flow import path_calls
from ..model import NONCONST
from ..paths import Path, env_at
from ..rules import optional as optional_rules
from .common import DIAGNOSTICS, Ctx, describe, new_run

LEVEL = "proof"
LEVEL_TEXT = (
    "Proof by exhaustive path classification of Diagnostics.run, relative to truthful bounds (C06) and a truthful "
    "executor: every path that produces a doomed verdict is shown to carry a sound witness for the node kind it is in "
    "(static max_rows == 0, a doomed child, a zero-limit slice, a trivially false predicate, both chain branches doomed, "
    "an executor answering 'no rows') and to report a message; every path that produces 'not doomed' for a node kind "
    "that can remove all rows has consulted the executor; and the constant is_empty_invariant flags that gate this are "
    "compared with a reference.  Induction over the tree does the rest."
)
LEVEL_NOTE = (
    "Assumes max_rows == 0 is truthful (C06, not decided statically) and the executor answers truthfully.  Trusted: the "
    "witness table and the emptiness reference (DESIGN.md appendix B)."
)
TECHNIQUE = "exhaustive guarded-path classification against a witness table (ast path enumeration + semantic facts)"

# can the operation turn a non-empty input into an empty output?
CAN_EMPTY = {
    "Selection": True,
    "Slice": True,
    "PartialJoin": True,
    "Calculation": False,
    "Projection": False,
    "Deduplication": False,
    "Sort": False,
    "Identity": False,
}


def _flat(facts: list[Fact]) -> list[Fact]:
    out = []
    for f in facts:
        if f.kind == "OR":
            for alt in f.parts:
                out.extend(_flat(list(alt)))
        else:
            out.append(f)
    return out


def check(model, tier):
    run, ctx = new_run(
        "C16",
        tier,
        LEVEL,
        model,
        "All paths of Diagnostics.run are classified by node kind and verdict; each doomed verdict needs a witness from "
        "a fixed table and a message, each non-doomed verdict of an emptying node kind needs the executor consulted.",
    )
    m = model
    # shared rules first: a verdict object that is mutated after being handed out, or a folding answer that is wrong,
    # corrupts verdicts whatever shape run() has
    from ..rules import expressions as _expressions
    from ..rules import mutation as _mutation

    _expressions.r13_1_as_trivial(ctx, rule="R16.5")
    _mutation.r09_4_no_shared_mutation(ctx)
    run.rule("R16.1", "every doomed verdict has a sound witness for its node kind", 8)
    run.rule("R16.2", "every doomed verdict carries at least one message", 8)
    run.rule("R16.3", "with an executor the verdict is exact: non-doomed verdicts of node kinds that can remove all rows have consulted it; is_empty_invariant flags agree with the reference", 10)
    f = m.func(DIAGNOSTICS, "Diagnostics.run")
    optional_rules.r_optional_truthiness(ctx, "R16.4", None, ("_diagnostics.py", "_operations/", "_relation.py"))
    ps = [p for p in f.params if p != "cls"]
    rel, exe = ps[0], ps[1]
    paths = ctx.paths(f)

    def kind_of(p: Path) -> tuple[str, int]:
        for i, s in enumerate(p.steps):
            if s.kind == "case" and s.value and src(s.subject) == rel:
                pat = src(s.node.pattern)  # type: ignore[union-attr]
                for k in ("LeafRelation", "MarkerRelation", "UnaryOperationRelation", "BinaryOperationRelation"):
                    if pat.startswith(k):
                        return k, i
                return pat, i
        return "?", -1

    exec_call = f"{exe}({rel})"
    n_doomed = 0
    for i, p in enumerate(paths):
        if p.outcome != "return":
            if p.outcome == "raise" and "AssertionError" in src(p.value):
                continue
            run.fail("R16.1", f"path{i}:outcome", "Diagnostics.run has a path that does not return a verdict", fi=f, node=p.node or f.node, details=describe(p))
            continue
        kind, kidx = kind_of(p)
        facts = path_facts(p)
        flat = _flat(facts)
        v = p.value
        env = env_at(p)
        # ---- verdict of the returned object
        verdict = None  # 'true' | 'false' | 'child' | ('expr', node)
        msg_list = None
        child_names: list[str] = []
        if isinstance(v, ast.Call) and (dotted(v.func) or "") == "cls" and len(v.args) >= 2:
            a0 = v.args[0]
            msg_list = src(v.args[1])
            if isinstance(a0, ast.Constant) and isinstance(a0.value, bool):
                verdict = "true" if a0.value else "false"
            else:
                verdict = ("expr", a0)
        elif isinstance(v, ast.Call) and call_attr(v) == "run":
            verdict = "child"
        elif isinstance(v, ast.Name):
            b = env.get(v.id)
            if isinstance(b, ast.Call) and call_attr(b) == "run":
                stores = [s for s in p.steps if s.kind == "stmt" and isinstance(s.node, ast.Assign) and any(src(t) == f"{v.id}.is_doomed" for t in s.node.targets)]
                if stores:
                    val = stores[-1].node.value  # type: ignore[union-attr]
                    verdict = "true" if isinstance(val, ast.Constant) and val.value is True else ("expr", val)
                else:
                    verdict = "child"
                msg_list = f"{v.id}.messages"
                child_names.append(v.id)
        if verdict is None:
            raise AnalysisError(f"Diagnostics.run returns `{src(v)[:60]}`: verdict shape not recognised")
        for name, b in env.items():
            if isinstance(b, ast.Call) and call_attr(b) == "run" and name not in child_names:
                child_names.append(name)
        child_texts = set(child_names) | {src(b) for nm, b in env.items() if nm in child_names and isinstance(b, ast.expr)}
        child_doomed = [fct for fct in facts if fct.kind == "TRUTH" and fct.polarity and fct.args[0].endswith(".is_doomed") and fct.args[0][: -len(".is_doomed")] in child_texts]
        child_doomed_or = [
            fct for fct in facts
            if fct.kind == "OR" and all(any(x.kind == "TRUTH" and x.polarity and x.args[0].endswith(".is_doomed") for x in alt) for alt in fct.parts)
        ]
        inst = f"{kind}:path{i}"
        # ---- R16.1 witnesses
        if verdict == "true":
            n_doomed += 1
            witness = None
            for fct in facts:
                if fct.kind == "EQ" and fct.polarity and set(fct.args) == {"0", f"{rel}.max_rows"}:
                    witness = "static max_rows == 0"
            if any(fct.kind == "TRUTH" and not fct.polarity and fct.args[0] == exec_call for fct in facts):
                if kind == "UnaryOperationRelation":
                    if any(fct.kind == "TRUTH" and not fct.polarity and fct.args[0].endswith(".is_empty_invariant") for fct in facts):
                        witness = witness or "executor reports no rows (operation can empty its input)"
                else:
                    witness = witness or "executor reports no rows"
            if kind == "UnaryOperationRelation":
                for j, s in enumerate(p.steps):
                    if s.kind == "case" and s.value and src(s.subject) != rel:
                        pat = src(s.node.pattern)  # type: ignore[union-attr]
                        from ..astutil import pattern_captures

                        caps = pattern_captures(s.node.pattern)  # type: ignore[union-attr]
                        if pat.startswith("Slice"):
                            lim = [n for n, acc in caps.items() if acc == ("limit",)] + [f"{src(s.subject)}.limit"]
                            if any(fct.kind == "EQ" and fct.polarity and set(fct.args) in [{"0", x} for x in lim] for fct in facts[:]):
                                witness = witness or "slice with limit == 0"
                        if pat.startswith("Selection"):
                            prs = [n for n, acc in caps.items() if acc == ("predicate",)] + [f"{src(s.subject)}.predicate"]
                            if any(fct.kind == "IS" and fct.polarity and set(fct.args) in [{"False", f"{x}.as_trivial()"} for x in prs] for fct in facts):
                                witness = witness or "trivially false predicate"
            if kind == "BinaryOperationRelation":
                join_arm = any(s.kind == "case" and s.value and src(s.node.pattern).startswith("Join") for s in p.steps)  # type: ignore[union-attr]
                if join_arm:
                    if child_doomed or child_doomed_or:
                        witness = witness or "a join operand is doomed"
                    for s in p.steps:
                        if s.kind == "case" and s.value and src(s.node.pattern).startswith("Join"):  # type: ignore[union-attr]
                            from ..astutil import pattern_captures

                            prs = [n for n, acc in pattern_captures(s.node.pattern).items() if acc == ("predicate",)] + [f"{src(s.subject)}.predicate"]  # type: ignore[union-attr]
                            if any(fct.kind == "IS" and fct.polarity and set(fct.args) in [{"False", f"{x}.as_trivial()"} for x in prs] for fct in facts):
                                witness = witness or "trivially false join predicate"
            if witness:
                run.ok("R16.1", inst, {"witness": witness, "path": p.describe()[-4:]})
            else:
                run.fail(
                    "R16.1",
                    inst,
                    f"a {kind} is reported doomed on a path with no sound witness (allowed: static max_rows == 0, doomed child, "
                    "zero-limit slice, trivially false predicate, executor says empty for an operation that can empty its input)",
                    fi=f,
                    node=p.node,
                    details=describe(p, 16),
                )
        elif isinstance(verdict, tuple):
            n_doomed += 1
            e = verdict[1]
            chain_arm = any(s.kind == "case" and s.value and src(s.node.pattern).startswith("Chain") for s in p.steps)  # type: ignore[union-attr]
            ok = isinstance(e, ast.BoolOp) and isinstance(e.op, ast.And) and len(e.values) == 2 and all(src(x).endswith(".is_doomed") and src(x).split(".")[0] in child_names for x in e.values) and len({src(x) for x in e.values}) == 2
            if ok and chain_arm:
                run.ok("R16.1", inst, {"witness": "both chain branches doomed", "expr": src(e)})
            else:
                run.fail("R16.1", inst, f"verdict computed as `{src(e)}`: a chain is empty only if both branches are (and only chains may combine verdicts)", fi=f, node=p.node, details=describe(p, 16))
        elif verdict == "child":
            if kind in ("MarkerRelation",) or (kind == "UnaryOperationRelation"):
                run.ok("R16.1", inst, {"witness": "child's verdict"})
            else:
                run.fail("R16.1", inst, f"a {kind} simply adopts a child's verdict", fi=f, node=p.node, details=describe(p, 16))
        else:
            run.ok("R16.1", inst)
        # ---- R16.2 messages
        if verdict == "true" or isinstance(verdict, tuple) or (verdict == "child" and child_doomed):
            appended = False
            for s in p.steps:
                if s.kind == "stmt" and isinstance(s.node, ast.Expr) and isinstance(s.node.value, ast.Call) and call_attr(s.node.value) == "append":
                    recv = src(s.node.value.func.value)  # type: ignore[union-attr]
                    if msg_list is not None and recv == msg_list:
                        appended = True
            nonempty = any(fct.kind == "TRUTH" and fct.polarity and fct.args[0] == msg_list for fct in facts)
            inherits = False
            if msg_list is not None:
                b = env.get(msg_list) if msg_list.isidentifier() else None
                text = src(b) if isinstance(b, ast.expr) else msg_list
                for cd in child_doomed + [x for o in child_doomed_or for alt in o.parts for x in alt]:
                    nm = cd.args[0].split(".")[0]
                    if f"{nm}.messages" in text:
                        inherits = True
                if isinstance(verdict, tuple) and isinstance(verdict[1], ast.BoolOp):
                    inherits = all(f"{src(x).split('.')[0]}.messages" in text for x in verdict[1].values)  # type: ignore[union-attr]
            if verdict == "child":
                inherits = True
            if appended or nonempty or inherits:
                run.ok("R16.2", inst, {"how": "appended" if appended else "pre-existing" if nonempty else "doomed child's messages"})
            else:
                run.fail("R16.2", inst, "a doomed verdict is returned without any explanatory message on this path", fi=f, node=p.node, details=describe(p, 16))
        # ---- R16.3 exactness
        if verdict == "false" or (verdict == "child" and not child_doomed and kind == "UnaryOperationRelation"):
            def _reason(fct, _kind=kind) -> bool:
                """The fact alone explains why no verdict of emptiness could be reached."""
                if fct.kind == "TRUTH" and fct.args[0] == exec_call:
                    return True
                if fct.kind == "IS" and set(fct.args) == {"None", exe} and fct.polarity:
                    return True
                if _kind == "UnaryOperationRelation" and fct.kind == "TRUTH" and fct.polarity and fct.args[0].endswith(".is_empty_invariant"):
                    return True
                if fct.kind == "OR":
                    return all(any(_reason(x) for x in alt) for alt in fct.parts)
                return False

            consulted = any(_reason(fct) for fct in facts)
            if kind == "LeafRelation":
                need = True
            elif kind == "UnaryOperationRelation":
                need = not any(fct.kind == "TRUTH" and fct.polarity and fct.args[0].endswith(".is_empty_invariant") for fct in facts)
                # (operations that cannot empty their input need no executor: _reason accepts the flag as an explanation)
            elif kind == "BinaryOperationRelation":
                need = any(s.kind == "case" and s.value and src(s.node.pattern).startswith("Join") for s in p.steps) or not any(  # type: ignore[union-attr]
                    s.kind == "case" and s.value and src(s.subject) != rel for s in p.steps
                )
            else:
                need = False
            inst3 = f"{kind}:path{i}:not-doomed"
            if not need or consulted:
                run.ok("R16.3", inst3)
            else:
                run.fail(
                    "R16.3",
                    inst3,
                    f"a {kind} that can lose all its rows is reported not doomed without the executor having been consulted",
                    fi=f,
                    node=p.node,
                    details=describe(p, 16),
                )
    if n_doomed == 0:
        raise AnalysisError("Diagnostics.run never produces a doomed verdict")
    # marker arm delegates with the same executor
    for p in paths:
        kind, _ = kind_of(p)
        if kind == "MarkerRelation" and p.outcome == "return":
            v = p.value
            ok = isinstance(v, ast.Call) and call_attr(v) == "run" and len(v.args) == 2 and src(v.args[1]) == exe
            cap = env_at(p).get(v.args[0].id) if ok and isinstance(v.args[0], ast.Name) else None
            ok = ok and isinstance(cap, tuple) and cap[2] == ("target",)
            if ok:
                run.ok("R16.3", "marker:delegates")
            else:
                run.fail("R16.3", "marker:delegates", "a marker relation's verdict is not that of its target with the same executor", fi=f, node=p.node)
    # children are diagnosed with the same executor
    for c in [c for c in ast.walk(f.node) if isinstance(c, ast.Call) and call_attr(c) == "run"]:
        if len(c.args) == 2 and src(c.args[1]) == exe:
            run.ok("R16.3", f"recursion:{src(c)}")
        else:
            run.fail("R16.3", f"recursion:{src(c)}", "a child is diagnosed without the caller's executor (its emptiness would be judged statically only)", fi=f, node=c)
    # is_empty_invariant flags vs. reference
    for c in ctx.k.concrete(ctx.k.unary_ops):
        if c.name not in CAN_EMPTY:
            raise AnalysisError(f"operation class {c.name} has no entry in the emptiness reference")
        val = m.const_property(c, "is_empty_invariant")
        inst = f"flag:{c.name}.is_empty_invariant"
        if val is NONCONST:
            fn = m.method(c, "is_empty_invariant")
            if fn is None:
                raise AnalysisError(f"{c.name}.is_empty_invariant is no longer a constant and no method defines it")
            if not CAN_EMPTY[c.name]:
                run.ok("R16.3", inst, {"value": "computed; the operation cannot empty its input, so a False only costs an execution"})
                continue
            # an operation that can empty its input may claim invariance only for an instance that provably keeps every row
            rets = [p.value for p in ctx.paths(fn) if p.outcome == "return"]
            bad = [
                r
                for r in rets
                if not (isinstance(r, ast.Constant) and r.value is False)
                and not (r is not None and src(r).replace(" ", "") in ("self.predicate.as_trivial()isTrue", "self.predicate.as_trivial()==True"))
            ]
            if bad:
                run.fail(
                    "R16.3",
                    inst,
                    f"{c.name}.is_empty_invariant is computed as `{src(bad[0])[:70]}`: the operation can turn a non-empty input into an empty output, and nothing but a "
                    "predicate that folds to True guarantees that an instance does not - where the flag is wrongly True the executor is never asked and an empty relation is reported not doomed",
                    fi=fn,
                )
            else:
                run.ok("R16.3", inst, {"value": "computed: False, or True only for a trivially true predicate"})
            continue
        if bool(val) == (not CAN_EMPTY[c.name]):
            run.ok("R16.3", inst, {"value": val})
        else:
            fn = m.method(c, "is_empty_invariant")
            run.fail(
                "R16.3",
                inst,
                f"{c.name}.is_empty_invariant is {val} but the operation {'can' if CAN_EMPTY[c.name] else 'cannot'} turn a non-empty input into an empty output",
                fi=fn,
            )
    from ..rules import sqlemit as _sqlemit

    # a relation diagnosed as doomed because its predicate is trivially false must also compile to a query without rows
    _sqlemit.r_flattened_predicate(ctx, "R16.7")
    from ..rules import mergeeval as _mergeeval

    _mergeeval.r05_9_merge_semantics(ctx, rule="R16.8")  # the tree diagnosed must be the one that was asked for (zero-limit slices survive merging)
    run.assume("max_rows == 0 is truthful (C06 is not decided statically)")
    run.assume("the executor answers truthfully")
    from ..rules.foundation import run_foundation

    run_foundation(ctx, "16")
    return run
