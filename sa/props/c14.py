"""C14 - every reachable tree is engine-consistent and structurally well-formed."""

from __future__ import annotations

from ..rules import expressions, structure
from .common import new_run

LEVEL = "proof"
LEVEL_TEXT = (
    "Structural proof over the tree-building funnel: node classes have exactly one construction site each (who-may-"
    "construct scan of every call in the package), the engine/column consistency checks dominate those sites on all "
    "paths, placeholder operations provably never reach a constructor, resolved join columns are established on every "
    "returning path, and the documented no-op calls are shown by an interprocedural alias analysis to return the very "
    "object passed in, through every engine override."
)
LEVEL_NOTE = (
    "Trusted: closedness of the hierarchies as asserted in __init_subclass__; extension engines/markers outside the "
    "package; SQL relations are Select-wrapped (C17's R17.2)."
)
TECHNIQUE = "who-may-construct scan + path dominance + interprocedural alias (identity-dataflow) analysis on ast"


def check(model, tier):
    run, ctx = new_run(
        "C14",
        tier,
        LEVEL,
        model,
        "All constructor calls, all _finish_apply overrides, Engine.transfer, Join/Chain validation and the no-op "
        "identity dataflow are enumerated over the closed operation/relation/engine sets.",
    )
    structure.r14_1_who_may_construct(ctx)
    structure.r14_2_checks_dominate(ctx)
    structure.r14_3_placeholders(ctx)
    structure.r14_4_join_columns(ctx)
    structure.r14_5_noop_identity(ctx)
    structure.r14_6_engine_of_node(ctx)
    structure.r14_9_engine_plumbing(ctx)
    expressions.r13_4_required_columns(ctx, rule="R14.7")
    from ..rules import reqeval as _reqeval

    _reqeval.r13_6_requirements(ctx, rule="R14.11")
    from ..rules import merge as _merge

    _merge.r05_1_simplify_discipline(ctx, rule="R14.12")
    structure.r_transfer_reapply_engine(ctx, "R14.13")
    from ..rules import sqlemit as _sqlemit

    _sqlemit.r_select_hooks_get_selects(ctx, "R14.15")
    structure.r15_2_simplification_shapes(ctx)  # transfer to the current engine returns the relation itself
    _reqeval.r_common_columns_exact(ctx, "R14.14")
    from ..rules import commute as _commute2

    from ..rules import classlevel as _classlevel

    _classlevel.r_commutator_messages(ctx, "R14.M1")  # a wrong message type turns the documented EngineError into TypeError
    _commute2.r03_1_apply_protocol(ctx)  # which engine appends, which operation object is inserted
    structure.r06_1_flags(ctx, rule="R14.8")
    from ..rules import commute as _commute

    from ..rules import validation as _validation

    _validation.r20_2_inventory(ctx, rule="R14.16")
    _commute.r14_17_partial_join_resolved(ctx, "R14.17")  # every node is built behind the column / engine checks of its factory, on every successful exit
    _commute.r04_4_set_formulas(ctx, rule="R14.10")  # columns_required of a (partial) join decides whether a moved operation stays valid upstream
    run.assume("every SQL-engine relation handed to the engine is a Select (R17.2, checked under C17)")
    run.assume("Transfer.simplify finds nothing to simplify on the own-engine no-op path (otherwise the call is not a no-op)")
    from ..rules.foundation import run_foundation

    run_foundation(ctx, "14")
    return run
