"""C15 - transfer/materialize simplifications keep content; locked trees are inviolate."""

from __future__ import annotations

from ..rules import structure
from .common import new_run

LEVEL = "other"
LEVEL_TEXT = (
    "Structural guarantee, not a content proof: (a) every function that rebuilds a tree from the parts of an existing "
    "one (backtrack_unary, sql conform, Transfer.simplify) is shown, by class-set narrowing along every path, to descend "
    "only into node kinds whose is_locked is the constant False, so a locked node can only be returned as the identical "
    "object and nothing is inserted upstream of it; (b) the shapes of Transfer.simplify, Engine.transfer, "
    "Materialization.simplify and Engine.materialize are checked path by path against the simplification contract.  "
    "That the rows after a round trip are unchanged is a runtime statement and is not decided."
)
LEVEL_NOTE = (
    "Decided: locked-node inviolability and the simplification shapes.  Not decided: row content after transfers.  "
    "Trusted: MarkerRelation subclasses outside the package keep is_locked False unless they accept not being conformed; "
    "C09 (nothing is mutated or copied) for identity of returned locked nodes."
)
TECHNIQUE = "abstract class-set narrowing along enumerated paths (lockable kinds) + per-path shape rules"


def check(model, tier):
    run, ctx = new_run(
        "C15",
        tier,
        LEVEL,
        model,
        "Decides the locked-tree clause and the shape of the transfer/materialize simplifications; does not decide row "
        "content of round trips (runtime values).",
    )
    structure.r15_1_rewriters_stop_at_locked(ctx)
    structure.r15_2_simplification_shapes(ctx)
    structure.r14_5_noop_identity(ctx)
    run.assume("identity of locked nodes in returned trees also relies on C09: no function copies or mutates relations")
    from ..rules import purity as _purity

    _purity.r_no_value_keyed_cache(ctx, "R15.3")
    from ..rules import structure as _structure

    _structure.r14_9_engine_plumbing(ctx, rule="R15.4")
    from ..rules import commute as _commute

    from ..rules import classlevel as _classlevel

    _classlevel.r_commutator_messages(ctx, "R15.M1")
    _commute.r03_2_backtrack_contract(ctx)  # what a factory call with a preferred engine rebuilds on a transfer chain
    from ..rules.foundation import run_foundation

    run_foundation(ctx, "15")
    return run
