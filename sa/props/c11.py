"""C11 - SQL engine honours sort order for slices and for trailing sorts, or refuses."""

from __future__ import annotations

from ..rules import sqlplace
from ..rules import triviality
from ..rules import optional as optional_rules
from .common import new_run

LEVEL = "other"
LEVEL_TEXT = (
    "Decides the structural clauses: the three order-loss guards dominate every nesting of a sorted, unsliced operand "
    "under a join, chain or materialization; by the placement table (all 256 cells) a Slice always lands in the SELECT "
    "that holds the sort, a Sort over a slice always nests with the new sort outside, and a hoisting nest re-attaches "
    "sort and slice outside; ORDER BY is emitted from every sort term (honouring direction) before OFFSET/LIMIT on both "
    "branches; and a retained sort never ends up over columns it cannot see.  Which rows the database returns for the "
    "window is not decided."
)
LEVEL_NOTE = "Trusted: clause-order reference; DBMS honours ORDER BY at the outermost level.  Not decided: returned rows."
TECHNIQUE = "guard dominance on enumerated paths + abstract interpretation of the Select placement function (ast)"


def check(model, tier):
    run, ctx = new_run(
        "C11",
        tier,
        LEVEL,
        model,
        "Order-loss guards, sort/slice placement over all Select states, ORDER BY scope and emission order are decided; "
        "row content of the window is not.",
    )
    sqlplace.r11_1_order_loss_guards(ctx)
    sqlplace.r02_1_placement_table(ctx, rule="R11.2")
    sqlplace.r11_3_emission(ctx)
    sqlplace.r08_3_order_by_scope(ctx, rule="R11.4")
    triviality.r05_2_noop_predicates_agree(ctx, rule="R11.5")
    optional_rules.r_optional_truthiness(ctx, "R11.6", {"limit", "stop", "max_rows"}, ("sql/", "_operations/_slice.py"))
    sqlplace.r_sort_mapping(ctx, "R11.10")
    from ..rules import merge as _merge

    _merge.r05_3_merged_constructors(ctx, rule="R11.7")
    _merge.r05_4_then(ctx, rule="R11.8")
    sqlplace.r_inner_calculation_name(ctx, "R11.9")
    sqlplace.r_order_survives(ctx, "R11.12")
    sqlplace.r_slice_keeps_its_sort(ctx, "R11.14")
    sqlplace.r08_2_compound_guard(ctx, rule="R11.13")  # strip() must not drop a Select that carries a sort or a slice
    from ..rules import mergeeval as _mergeeval

    _mergeeval.r05_9_merge_semantics(ctx, rule="R11.11")  # the Select's sort and slice slots are composed with Sort.then / Slice.then
    from ..rules.foundation import run_foundation

    run_foundation(ctx, "11")
    return run
