"""Shared context for the property checks."""

from __future__ import annotations

import ast

from ..absval import Evaluator
from ..astutil import AnalysisError, src
from ..kinds import Kinds
from ..model import ClassInfo, FunctionInfo, Model
from ..paths import Path, function_paths
from ..report import Run

# package-relative anchor modules
UNARY = "_unary_operation.py"
BINARY = "_binary_operation.py"
RELATION = "_relation.py"
ENGINE = "_engine.py"
MARKER = "_marker_relation.py"
TRANSFER = "_transfer.py"
MATERIALIZATION = "_materialization.py"
LEAF = "_leaf_relation.py"
OPREL = "_operation_relations.py"
PROCESSOR = "_processor.py"
DIAGNOSTICS = "_diagnostics.py"
IT_ENGINE = "iteration/_engine.py"
IT_ROWS = "iteration/_row_iterable.py"
SQL_ENGINE = "sql/_engine.py"
SQL_SELECT = "sql/_select.py"
SQL_PAYLOAD = "sql/_payload.py"
OPS = "_operations/"
PREDICATE = "_columns/_predicate.py"
EXPRESSION = "_columns/_expression.py"
CONTAINER = "_columns/_container.py"


class Ctx:
    """Per-run cache: model, closed sets, enumerated paths."""

    def __init__(self, model: Model, run: Run):
        self.m = model
        self.run = run
        self.k = Kinds(model)
        self._paths: dict[FunctionInfo, list[Path]] = {}
        self._ev: dict[str, Evaluator] = {}

    def func(self, rel: str, qualname: str) -> FunctionInfo:
        return self.m.func(rel, qualname)

    def cls(self, rel: str, name: str) -> ClassInfo:
        return self.m.cls(rel, name)

    def paths(self, fi: FunctionInfo) -> list[Path]:
        if fi not in self._paths:
            ps = function_paths(fi)
            self._paths[fi] = ps
            self.run.analysed(fi, len(ps))
        return self._paths[fi]

    def ev(self, fi_or_module) -> Evaluator:
        module = fi_or_module.module if hasattr(fi_or_module, "module") else fi_or_module
        if module.rel not in self._ev:
            self._ev[module.rel] = Evaluator(self.k, module)
        return self._ev[module.rel]

    def op_class(self, name: str) -> ClassInfo:
        for c in self.k.unary_ops + self.k.binary_ops:
            if c.name == name:
                return c
        raise AnalysisError(f"operation class {name} not found in the closed operation hierarchies")

    def rel_class(self, name: str) -> ClassInfo:
        for c in self.k.relation_kinds + [self.k.relation_root]:
            if c.name == name:
                return c
        raise AnalysisError(f"relation class {name} not found in the closed relation hierarchy")


def new_run(prop: str, tier: str, level: str, model: Model, explanation: str) -> tuple[Run, Ctx]:
    run = Run(prop, tier, level, model)
    run.explanation = explanation
    from .. import report as _report

    _report.CURRENT = run
    return run, Ctx(model, run)


def describe(path: Path, limit: int = 12) -> list[str]:
    d = path.describe()
    if len(d) > limit:
        d = d[: limit - 2] + ["..."] + d[-1:]
    return ["path: " + " ; ".join(d)]


def norm(node: ast.AST | None) -> str:
    return src(node)
