"""C04 - commutation reports are sound for every operation pair and target."""

from __future__ import annotations

from ..rules import commute, expressions
from .common import new_run

LEVEL = "other"
LEVEL_TEXT = (
    "Exhaustive at the type-pair level: for each of the 8 commute() implementations and each of the 6 operation classes "
    "an existing node can hold, the feasible outcomes of commute() are computed by abstract evaluation of its guards "
    "(class tests, the constant is_count_dependent/is_order_dependent flags, the column effect of the existing class) "
    "and compared with a reference may-commute matrix derived from order-preserving multiset semantics; failures must "
    "hand the existing operation back unchanged; and every precondition the moved operation's own validation enforces "
    "must reappear as a guard on the upstream relation.  Equality of rows for particular parameter values beyond those "
    "guards is not decided."
)
LEVEL_NOTE = (
    "Trusted: the reference matrix and its reasons (DESIGN.md appendix B); Calculation is a deterministic per-row "
    "function (documented); one known finding (Projection over Deduplication) is pinned by the test-suite and listed in "
    "known_findings.json."
)
TECHNIQUE = "abstract interpretation of commute() guards over the closed class sets vs. a reference commutation matrix"


def check(model, tier):
    run, ctx = new_run(
        "C04",
        tier,
        LEVEL,
        model,
        "8 x 6 class pairs are enumerated exhaustively; each cell's feasible (first, second, done) outcomes are compared "
        "with the reference matrix; plus syntactic exactness of 'failure hands back the existing operation' and the "
        "well-formedness guards.  Parameter values inside a class (which columns, which predicate) are abstracted by the "
        "guards commute() itself tests.",
    )
    commute.r04_1_matrix(ctx)
    commute.r04_2_failure_hands_back(ctx)
    commute.r04_3_moved_stay_wellformed(ctx)
    commute.r04_4_set_formulas(ctx)
    expressions.r13_4_required_columns(ctx, rule="R04.5")
    run.assume("operations preserve row order in engines that implement backtrack_unary (documented in UnaryOperation.commute)")
    run.assume("a Calculation is a deterministic function of existing columns (documented)")
    from ..rules import classlevel as _classlevel

    _classlevel.r_commutator_messages(ctx, "R04.M1")
    from ..rules.foundation import run_foundation

    run_foundation(ctx, "04")
    return run
