"""C05 - merging and eliding adjacent operations preserves semantics and never rejects."""

from __future__ import annotations

from ..rules import expressions, merge, triviality
from .common import new_run

LEVEL = "other"
LEVEL_TEXT = (
    "Decides the structural clauses of merging: what simplify() may return on every path (nothing, the upstream "
    "operation in the do-nothing case, self only when the upstream is provably superseded, or a composition built from "
    "both operands in existing-then-new order) and how _finish_apply uses it; that every place testing the do-nothing "
    "condition of a Slice or Sort decides it identically (exact over the finite truthiness/None abstraction); that merged "
    "constructors cannot raise (clamp rule); and the direction and normal form of then().  Integer/ordering semantics of "
    "the merged operation beyond the min-plus normal form of Slice.then are not decided."
)
LEVEL_NOTE = (
    "Trusted: the reference composition start = a.start + b.start, stop = min(a.stop, b.stop + a.start); later sort is "
    "the primary ordering.  Not decided: row-level equality of merged vs. sequential application."
)
TECHNIQUE = "per-path shape rules + exact guard equivalence over a finite abstraction + min-plus normal-form comparison (ast)"


def check(model, tier):
    run, ctx = new_run("C05", tier, LEVEL, model, "simplify discipline, do-nothing predicate agreement, clamp rule and then() direction/normal form are decided; row-level semantics are not.")
    merge.r05_1_simplify_discipline(ctx)
    triviality.r05_2_noop_predicates_agree(ctx)
    merge.r05_3_merged_constructors(ctx)
    merge.r05_4_then(ctx)
    merge.r05_5_operations_stored_as_given(ctx)
    merge.r05_6_who_may_elide(ctx)
    expressions.r13_1_as_trivial(ctx, rule="R05.7")
    expressions.r12_3_connectives(ctx, rule="R05.8")
    from ..rules import mergeeval as _mergeeval

    _mergeeval.r05_9_merge_semantics(ctx)
    from ..rules import sqlplace as _sqlplace

    _sqlplace.r_refusals_only_where_needed(ctx, "R05.10")
    _sqlplace.r02_1_placement_table(ctx, rule="R05.11")  # sorts and slices met in a Select are composed with then(), never replaced  # merging into a Select never rejects a valid operation
    from ..rules import structure as _structure

    _structure.r14_5_noop_identity(ctx)  # an elided operation returns the target itself, in the target's own engine
    from ..rules import rowseval as _rowseval

    _rowseval.r_sliced_is_window(ctx, "R05.12")
    from ..rules import dispatch as _dispatch5

    _dispatch5.r_only_deduplication_merges_rows(ctx, "R05.13")  # projection over projection keeps every row of the target  # a merged slice is evaluated by sliced(): its window is that of the rows
    from ..rules.foundation import run_foundation

    run_foundation(ctx, "05")
    return run
