"""C08 - every tree the factories accept can be compiled and executed."""

from __future__ import annotations

from ..rules import dispatch, sqlplace
from ..rules import payload, triviality, typing as typing_rules
from ..rules import optional as optional_rules
from .common import new_run

LEVEL = "other"
LEVEL_TEXT = (
    "Exhaustive at the rule-space level: every `match` dispatcher in both engines, the Processor and Diagnostics is "
    "shown total over the closed class set it ranges over (computed from __init_subclass__ whitelists, including which "
    "operations the placement table can put inside a Select's skip target); the compound guard keeps UNION skip targets "
    "away from nodes the compiler must descend through; and every placement that keeps a sort over a reduced column set "
    "establishes that the sort's columns are still in scope or refuses at construction; ORDER BY terms are converted "
    "against the full column mapping of the skip target; the engine is not written to during conversion (who-may-write "
    "over everything reachable from the conversion entry points); Select markers are built only by apply_skip with "
    "is_compound taken from the skip target.  Rejection of the SQL by a "
    "particular DBMS dialect is not decided."
)
LEVEL_NOTE = (
    "Documented refusals (iteration-engine joins; raw transfers/materializations needing a Processor) are accepted as "
    "such.  Trusted: closed hierarchies; extension operations/markers are outside the quantifier."
)
TECHNIQUE = "dispatch-totality over closed class sets + abstract interpretation of the Select placement function (ast)"


def check(model, tier):
    run, ctx = new_run(
        "C08",
        tier,
        LEVEL,
        model,
        "All dispatchers x all classes of their closed set, all 256 placement cells for the compound guard and the "
        "ORDER BY scope; dialect acceptance is not decided.",
    )
    dispatch.r08_1_totality(ctx)
    sqlplace.r08_2_compound_guard(ctx)
    sqlplace.r08_3_order_by_scope(ctx)
    sqlplace.r02_1_placement_table(ctx, rule="R08.2t")
    triviality.r05_2_noop_predicates_agree(ctx, rule="R08.6")
    typing_rules.r08_5_slice_subscripts(ctx)
    payload.r10_4_who_may_attach(ctx, rule="R08.7")
    optional_rules.r_optional_truthiness(ctx, "R08.8")
    sqlplace.r_sort_mapping(ctx, "R08.9")
    from ..rules import sqlemit as _sqlemit

    _sqlemit.r_identifier_agreement(ctx, "R08.14")
    sqlplace.r11_3_emission(ctx, rule="R08.16")
    sqlplace.r_refusals_only_where_needed(ctx, "R08.17")
    from ..rules import processor as _processor

    _processor.r07_8_materialize_as(ctx, rule="R08.18")  # a node persisted twice under one name is rejected by the database
    _processor.r07_11_operands_processed(ctx, rule="R08.19")  # ORDER BY / LIMIT emission incl. the logical-column hooks of engine subclasses
    _sqlemit.r_select_never_empty(ctx, "R08.20")
    sqlplace.r_subquery_keeps_its_slots(ctx, "R08.23")
    _sqlemit.r_logical_column_hooks(ctx, "R08.22")
    from ..rules import expressions as _expressions

    _expressions.r12_2_function_lookup(ctx, rule="R08.21")  # a function name resolves the documented way or the query names a function the database lacks
    _sqlemit.r02_2_join_payload(ctx, rule="R08.15")  # every column a join predicate may use is in the mapping it is converted against
    from ..rules import purity, structure
    from .common import SQL_ENGINE

    purity.r_engine_stateless(ctx, "R08.10", SQL_ENGINE, ("to_executable", "to_payload", "conform", "append_unary", "append_binary"))
    structure.r17_conform(ctx, rules=("R08.11", "R08.12", "R08.13"))
    run.assume("EngineError for iteration-engine joins and for unprocessed transfers/materializations are documented refusals")
    from ..rules.foundation import run_foundation

    run_foundation(ctx, "08")
    return run
