"""C17 - SQL conform is idempotent, content-preserving, keeps SELECT markers coherent."""

from __future__ import annotations

from ..rules import structure
from ..rules import triviality
from .common import new_run

LEVEL = "other"
LEVEL_TEXT = (
    "Decides the structural clauses: conform is a fixed point on Select (abstract evaluation of its dispatch for a "
    "Select argument), every SQL-engine factory returns a Select-producing expression on every path (least-fixpoint "
    "summary), and Select.apply_skip - the only construction site - applies sort, projection, deduplication, slice in "
    "that order on the running target, hands the same objects to the constructor and flags compound exactly for a "
    "Chain skip target.  That conform(raw) preserves rows is C02's placement table applied recursively plus runtime "
    "evaluation, and is not decided here."
)
LEVEL_NOTE = "Trusted: closed hierarchies; row preservation of conform is not claimed (see C02 for the placement table)."
TECHNIQUE = "abstract dispatch evaluation + least-fixpoint 'returns Select' summary + call-order check on enumerated paths"


def check(model, tier):
    run, ctx = new_run(
        "C17",
        tier,
        LEVEL,
        model,
        "Fixed point, factory closure and marker coherence by construction are decided; row preservation is not.",
    )
    structure.r17_conform(ctx)
    structure.r14_1_who_may_construct(ctx)
    triviality.r05_2_noop_predicates_agree(ctx, rule="R17.4")
    from ..rules import sqlplace as _sqlplace

    _sqlplace.r08_3_order_by_scope(ctx, rule="R17.5")
    from ..rules import merge as _merge

    _merge.r05_4_then(ctx, rule="R17.6")
    from ..rules import sqlplace as _sqlplace2

    _sqlplace2.r_inner_calculation_name(ctx, "R17.8")
    from ..rules import sqlemit as _sqlemit

    _sqlemit.r02_3_hoisted_projection(ctx, rule="R17.12")
    _sqlplace.r02_1_placement_table(ctx, rule="R17.10")
    _sqlplace.r_sort_mapping(ctx, "R17.11")
    _sqlplace.r08_2_compound_guard(ctx, rule="R17.13")  # strip() hands back the marker's target and whether a projection went with it
    _sqlplace.r_slice_keeps_its_sort(ctx, "R17.14")
    _sqlplace.r_subquery_keeps_its_slots(ctx, "R17.15")
    _sqlemit.r02_2_join_payload(ctx, rule="R17.9")  # a join keeps a stripped operand only when nothing it hides can shadow
    from ..rules.foundation import run_foundation

    run_foundation(ctx, "17")
    return run
