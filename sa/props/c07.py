"""C07 - the Processor evaluates multi-engine trees faithfully and only annotates payloads."""

from __future__ import annotations

import ast

from ..astutil import AnalysisError, attr_chain, call_attr, dotted, iter_calls, src
from ..facts import has_fact, path_facts
from ..flow import case_index, path_calls
from ..paths import Path, env_at, resolve_name
from ..rules import dispatch, payload, structure
from ..rules import optional as optional_rules
from .common import MARKER, PROCESSOR, Ctx, describe, new_run

LEVEL = "other"
LEVEL_TEXT = (
    "Decides the structural clauses on every path of Processor._process_recursive: the input tree is changed only by "
    "attaching payloads to materializations (who-may-attach + the single guarded writer); transfers receive their payload "
    "through a re-applied copy; hooks run only behind `payload is None`, `not is_join_identity`, `max_rows != 0` and are "
    "fed the processed (never the raw) source; the chain branch dropped is the one tested empty; operations are "
    "re-inserted through the validating apply(); the dispatch is total; and a payload is read from / attached to a node "
    "that can own one (never an engine's wrapper marker); every returning path of an arm has recursed into every operand "
    "of the node (must-pass-through; only a statically trivial transfer may skip it); payload-owning markers are re-applied "
    "as plain copies with exactly the given target and payload; no cached payload is mutated in place.  That the rows of the processed tree equal direct evaluation "
    "is a runtime statement and is not decided."
)
LEVEL_NOTE = "Trusted: hooks implemented by the caller return truthful payloads; C09/C10 for the no-mutation and write-once parts."
TECHNIQUE = "guarded-path dominance + provenance of hook arguments + payload-owner kind rule on enumerated ast paths"


def never_owning_markers(ctx: Ctx):
    """Marker classes that state they never hold a payload (their reapply refuses one)."""
    m = ctx.m
    out = []
    for c in m.subclasses(ctx.k.marker, strict=True):
        f = c.methods.get("reapply")
        if f is None:
            continue
        for p in ctx.paths(f):
            if p.outcome == "raise" and any(fct.kind == "IS" and not fct.polarity and "None" in fct.args and any("payload" in a for a in fct.args) for fct in path_facts(p)):
                out.append(c)
                break
    return out


def stripping_helpers(ctx: Ctx) -> set[str]:
    """Functions that follow `.target` through marker relations and hand back the node they reach."""
    out = set()
    for f in ctx.m.module(PROCESSOR).classes["Processor"].methods.values():
        ps = [p for p in f.params if p not in ("self", "cls")]
        if len(ps) != 1:
            continue
        p0 = ps[0]
        txt = src(f.node)
        steps_down = any(isinstance(n, ast.Assign) and src(n.targets[0]) == p0 and src(n.value) == f"{p0}.target" for n in ast.walk(f.node)) or f"({p0}.target)" in txt
        tests_marker = "MarkerRelation" in txt and "isinstance" in txt or any(isinstance(n, ast.Match) and "MarkerRelation" in src(n) for n in ast.walk(f.node))
        returns_param = all(isinstance(r.value, (ast.Name, ast.Call)) for r in ast.walk(f.node) if isinstance(r, ast.Return))
        keeps_owners = "Transfer" in txt and "Materialization" in txt
        if steps_down and tests_marker and returns_param and keeps_owners:
            out.add(f.name)
    return out


def check(model, tier):
    run, ctx = new_run("C07", tier, LEVEL, model, "Payload-only annotation, hook guards and provenance, chain pruning, validating re-insertion, totality and payload ownership are decided; rows are not.")
    m = model
    f = m.func(PROCESSOR, "Processor._process_recursive")
    orig = [p for p in f.params if p != "self"][0]
    paths = ctx.paths(f)

    # ---- R07.1
    run.rule("R07.1", "the Processor changes the input tree only by attach_payload inside the Materialization arm; transfers get their payload through reapply(new_target, payload)", 3)
    payload.r10_4_who_may_attach(ctx, rule="R07.1w")
    for i, p in enumerate(paths):
        it = case_index(p, "Transfer", orig)
        if it < 0 or p.outcome != "return":
            continue
        inst = f"transfer-arm:path{i}"
        v = p.value
        first = v.elts[0] if isinstance(v, ast.Tuple) and v.elts else v
        b = resolve_name(p, first.id) if isinstance(first, ast.Name) else first
        attaches = [c for _, c in path_calls(p, it) if call_attr(c) in ("attach_payload", "__setattr__", "setattr")]
        ok = isinstance(b, ast.Call) and call_attr(b) == "reapply" and isinstance(b.func, ast.Attribute) and src(b.func.value) == orig and len(b.args) == 2
        if ok:
            pb = resolve_name(p, b.args[1].id) if isinstance(b.args[1], ast.Name) else b.args[1]
            ok = pb is not None
        if attaches:
            run.fail("R07.1", inst, f"the Transfer arm writes to a relation (`{src(attaches[0])[:60]}`): transfer nodes of the input tree must never gain payloads", fi=f, node=attaches[0])
        elif ok:
            run.ok("R07.1", inst, {"returns": src(b)})
        else:
            run.fail("R07.1", inst, f"the Transfer arm returns `{src(b)[:70]}` instead of a re-applied copy {orig}.reapply(<processed target>, <payload>)", fi=f, node=p.node, details=describe(p))

    # ---- R07.2 / R07.3 hooks
    run.rule("R07.2", "transfer/materialize hooks run only behind payload is None, not is_join_identity and max_rows != 0 of the node being processed", 2)
    run.rule("R07.3", "the relation handed to a hook is the processed source (result of _process_recursive), never the raw target", 2)
    seen_hooks = set()
    for i, p in enumerate(paths):
        for j, c in path_calls(p):
            if call_attr(c) not in ("transfer", "materialize") or not isinstance(c.func, ast.Attribute) or src(c.func.value) != "self":
                continue
            hook = call_attr(c)
            seen_hooks.add(hook)
            facts = path_facts(p, j, versioned="entry+current")
            missing = []
            if not has_fact(facts, "IS", tuple(sorted(("None", f"{orig}.payload"))), True):
                missing.append(f"{orig}.payload is None")
            if not has_fact(facts, "TRUTH", (f"{orig}.is_join_identity",), False):
                missing.append(f"not {orig}.is_join_identity")
            if not has_fact(facts, "EQ", tuple(sorted(("0", f"{orig}.max_rows"))), False):
                missing.append(f"{orig}.max_rows != 0")
            inst = f"{hook}-hook:path{i}"
            if missing:
                run.fail("R07.2", inst, f"self.{hook}(...) is reachable without {', '.join(missing)}: the hook would run for a relation that is already evaluated or statically trivial", fi=f, node=c, details=describe(p))
            else:
                run.ok("R07.2", inst)
            a0 = c.args[0] if c.args else None
            b = env_at(p, j).get(a0.id) if isinstance(a0, ast.Name) else None
            okp = isinstance(b, tuple) and b[0] == "unpack" and isinstance(b[1], ast.Call) and call_attr(b[1]) == "_process_recursive" and b[2] == 0
            if okp:
                run.ok("R07.3", inst, {"argument": src(a0)})
            else:
                run.fail("R07.3", inst, f"self.{hook}({src(a0)}, ...) is not given the processed source returned by _process_recursive: upstream transfers/materializations would not have happened", fi=f, node=c, details=describe(p))
            if hook == "transfer":
                ok2 = len(c.args) >= 3 and src(c.args[2]) in f.params
                from ..flow import denotes

                is_dest = len(c.args) > 1 and denotes(p, c.args[1], orig, ("destination",), j)
                ok2 = ok2 and is_dest
                if ok2:
                    run.ok("R07.3", inst + ":destination")
                else:
                    run.fail("R07.3", inst + ":destination", "the transfer hook is not given the transfer's own destination and the pending materialization name", fi=f, node=c)
    if seen_hooks != {"transfer", "materialize"}:
        raise AnalysisError(f"Processor._process_recursive calls hooks {sorted(seen_hooks)}; expected transfer and materialize")

    # ---- R07.4 chain pruning + flags
    structure.r06_1_flags(ctx, rule="R07.4")
    structure.r14_9_engine_plumbing(ctx, rule="R07.10")

    # ---- R07.5 totality and validating re-insertion
    dispatch.r08_1_totality(ctx, rule="R07.5", scope="generic")
    for i, p in enumerate(paths):
        for arm in ("UnaryOperationRelation", "BinaryOperationRelation"):
            ia = case_index(p, arm, orig)
            if ia < 0 or p.outcome != "return":
                continue
            v = p.value
            first = v.elts[0] if isinstance(v, ast.Tuple) and v.elts else v
            inst = f"reinsert:{arm}:path{i}"
            if isinstance(first, ast.Call):
                if call_attr(first) == "apply" and isinstance(first.func, ast.Attribute):
                    from ..flow import denotes

                    if denotes(p, first.func.value, orig, ("operation",)):
                        run.ok("R07.5", inst)
                        continue
                run.fail("R07.5", inst, f"a changed sub-tree is re-inserted with `{src(first)[:60]}` instead of the validating <operation>.apply(...)", fi=f, node=p.node)
            else:
                run.ok("R07.5", inst)

    # ---- R07.6 payload ownership
    run.rule(
        "R07.6",
        "a payload is read from / attached to a node that can own one: inside _process_recursive only the relation being "
        "processed, or a value passed through a helper that strips non-owning wrapper markers (an engine may wrap what it "
        "returns in a marker that never holds a payload)",
        2,
    )
    never = never_owning_markers(ctx)
    helpers = stripping_helpers(ctx)
    run.extra["never_owning_markers"] = [c.key for c in never]
    run.extra["marker_stripping_helpers"] = sorted(helpers)
    sites = 0
    for n in ast.walk(f.node):
        target = None
        what = None
        if isinstance(n, ast.Attribute) and n.attr == "payload" and isinstance(n.ctx, ast.Load):
            target, what = n.value, "payload read"
        elif isinstance(n, ast.Call) and call_attr(n) == "attach_payload" and isinstance(n.func, ast.Attribute):
            target, what = n.func.value, "attach_payload"
        if target is None:
            continue
        sites += 1
        t = src(target)
        inst = f"{what}:{t}"
        if t == orig:
            run.ok("R07.6", inst, {"why": "the node being processed"})
        elif isinstance(target, ast.Call) and call_attr(target) in helpers:
            run.ok("R07.6", inst, {"why": f"wrapper markers stripped by {call_attr(target)}"})
        elif not never:
            run.ok("R07.6", inst, {"why": "no marker class in the package refuses payloads"})
        else:
            run.fail(
                "R07.6",
                inst,
                f"`{t}` may be a {'/'.join(c.name for c in never)} wrapper (its engine wraps every relation it returns, and that marker "
                f"'never has a payload'): the {what} lands on the wrapper instead of the Transfer/Materialization below it, so a "
                "materialization directly after a transfer in such an engine never receives its payload",
                fi=f,
                node=n,
            )
    if sites < 3:
        raise AnalysisError("Processor._process_recursive no longer reads or attaches payloads")
    # ---- R07.13 nothing is handed back unprocessed
    run.rule(
        "R07.13",
        "every returning path of _process_recursive has either found a payload on the node, or processed the node's "
        "operands (a recursive call), or built a trivial payload in the destination engine: no other shortcut returns a "
        "subtree as it is - the transfers and materializations inside it would reach the final engine unprocessed",
        4,
    )
    for i, p in enumerate(paths):
        if p.outcome != "return":
            continue
        inst = f"path{i}:processed"
        calls_p = [call_attr(c) for _j, c in path_calls(p)]
        has_payload = any(fct.kind == "IS" and not fct.polarity and "None" in fct.args and f"{orig}.payload" in fct.args for fct in path_facts(p, versioned=False))
        if has_payload or "_process_recursive" in calls_p or "get_join_identity_payload" in calls_p or "get_doomed_payload" in calls_p:
            run.ok("R07.13", inst)
        else:
            run.fail(
                "R07.13",
                inst,
                f"a path returns `{src(p.value)[:50]}` without a payload on the node and without processing its operands: transfers and materializations below it stay as they are, and the SQL engine "
                "(which evaluates every tree, trivial or not) refuses them",
                fi=f,
                node=p.node,
                details=describe(p),
            )
    # ---- R07.12 attach only where it can succeed, and only a payload that exists
    run.rule(
        "R07.12",
        "every attach_payload in _process_recursive targets a node the path knows to be without payload (the node being "
        "processed, or an unwrapped marker whose payload was just tested to be None) and never passes on a payload read "
        "from another node without having tested it: attaching to a leaf or to an already-persisted materialization raises "
        "TypeError half-way through processing, attaching None leaves the node unpersisted for ever",
        3,
    )
    def _alias_infeasible(p) -> bool:
        """`x = y` followed by the path taking `x is not y` (or refusing `x is y`) cannot be executed."""
        for j, s in enumerate(p.steps):
            if s.kind != "cond":
                continue
            t, pol = s.node, s.value
            while isinstance(t, ast.UnaryOp) and isinstance(t.op, ast.Not):
                t, pol = t.operand, not pol
            if not (isinstance(t, ast.Compare) and len(t.ops) == 1 and isinstance(t.ops[0], (ast.Is, ast.IsNot))):
                continue
            a, b = t.left, t.comparators[0]
            if not (isinstance(a, ast.Name) and isinstance(b, ast.Name)):
                continue
            e = env_at(p, j)
            same = any(isinstance(e.get(x.id), ast.Name) and e[x.id].id == y.id for x, y in ((a, b), (b, a)))
            if same and pol != isinstance(t.ops[0], ast.Is):
                return True
        return False

    for i, p in enumerate(paths):
        facts = None
        if _alias_infeasible(p):
            continue
        for j, c in path_calls(p):
            if call_attr(c) != "attach_payload" or not isinstance(c.func, ast.Attribute) or not c.args:
                continue
            if facts is None:
                facts = path_facts(p)
            envj = env_at(p, j)
            recv = c.func.value
            rtxt = src(recv)
            inst = f"attach:{rtxt}:path{i}"

            def _names_for(expr_txt: str) -> set[str]:
                out = {expr_txt}
                for nm, b in envj.items():
                    if isinstance(b, ast.AST) and src(b) == expr_txt:
                        out.add(nm)
                return out

            problem = None
            if rtxt != orig:
                texts = _names_for(f"{rtxt}.payload")
                empty = any(fct.kind == "IS" and fct.polarity and "None" in fct.args and set(fct.args) & texts for fct in facts)
                if not empty:
                    problem = f"`{src(c)[:70]}` attaches to `{rtxt}` on a path that has not established `{rtxt}.payload is None`: when that node is a leaf or an already persisted materialization the call raises TypeError after the input tree was already modified"
            v = c.args[0]
            vb = envj.get(v.id) if isinstance(v, ast.Name) else v
            if problem is None and isinstance(vb, ast.Attribute) and vb.attr == "payload":
                texts = {src(v)} | _names_for(src(vb))
                tested = any(fct.kind == "IS" and not fct.polarity and "None" in fct.args and set(fct.args) & texts for fct in facts)
                # ... or the recursive call said that its result carries one (second element of its answer)
                flags = {nm for nm, b in envj.items() if isinstance(b, tuple) and b and b[0] == "unpack" and b[2] == 1 and isinstance(b[1], ast.Call) and call_attr(b[1]) == "_process_recursive"}
                persisted_flag = any(fct.kind == "TRUTH" and fct.polarity and fct.args[0] in flags for fct in facts)
                if not tested and not persisted_flag:
                    problem = f"`{src(c)[:70]}` passes on `{src(vb)[:50]}` without having tested that it is not None: the node stays without payload and is evaluated again by every later run"
            if problem:
                run.fail("R07.12", inst, problem, fi=f, node=c, details=describe(p))
            else:
                run.ok("R07.12", inst)
    # ---- R07.7 trivial payloads come from the engine the node lives in
    run.rule(
        "R07.7",
        "payloads invented for statically trivial nodes come from the right engine: a Transfer's from its destination, a "
        "Materialization's from its target's engine; doomed payloads get the node's columns",
        3,
    )
    from ..astutil import pattern_captures

    for i, p in enumerate(paths):
        for arm, want in (("Transfer", "destination"), ("Materialization", "target.engine")):
            ia = case_index(p, arm, orig)
            if ia < 0:
                continue
            caps = pattern_captures(p.steps[ia].node.pattern)  # type: ignore[union-attr]
            dest_v = next((n for n, a in caps.items() if a == ("destination",)), f"{orig}.destination")
            tgt_v = next((n for n, a in caps.items() if a == ("target",)), f"{orig}.target")
            good = {dest_v, f"{orig}.destination", f"{orig}.engine"} if arm == "Transfer" else {f"{tgt_v}.engine", f"{orig}.target.engine", f"{orig}.engine"}
            for j, c in path_calls(p, ia):
                if call_attr(c) in ("get_join_identity_payload", "get_doomed_payload") and isinstance(c.func, ast.Attribute):
                    recv = src(c.func.value)
                    if isinstance(c.func.value, ast.Name):
                        rb = resolve_name(p, c.func.value.id, j)
                        if isinstance(rb, ast.expr):
                            recv = src(rb)
                    inst = f"{arm}:{call_attr(c)}"
                    if recv not in good:
                        run.fail("R07.7", inst, f"the {arm} arm takes a trivial payload from `{recv}`; the node lives in `{sorted(good)[0]}`, so the payload must come from that engine", fi=f, node=c)
                    elif call_attr(c) == "get_doomed_payload" and [src(a) for a in c.args] != [f"{orig}.columns"]:
                        run.fail("R07.7", inst, f"the doomed payload is built for `{[src(a) for a in c.args]}` instead of the node's own columns", fi=f, node=c)
                    else:
                        run.ok("R07.7", inst)

    from ..rules import processor as processor_rules

    processor_rules.r07_8_materialize_as(ctx)
    processor_rules.r07_11_operands_processed(ctx)
    payload.r10_3_evaluate_once(ctx)
    optional_rules.r_optional_truthiness(ctx, "R07.9", None, ("_processor.py", "_marker_relation.py", "_relation.py", "iteration/", "_operations/", "_unary_operation.py", "_binary_operation.py"))  # static emptiness (max_rows == 0) of every operation decides what the Processor prunes and transfers
    run.assume("the hooks implemented by the caller evaluate their source truthfully")
    from ..rules import mutation as _mutation

    _mutation.r09_4_no_shared_mutation(ctx)
    from ..rules.foundation import run_foundation

    run_foundation(ctx, "07")
    return run
