"""C06 - static metadata (columns, row bounds, triviality flags) is truthful.

Only the clauses whose truth is in the shape of the code are decided; see LEVEL_TEXT.
"""

from __future__ import annotations

import ast

from ..astutil import AnalysisError, attr_chain, call_attr, chains_read, dotted, iter_calls, kw, src
from ..facts import has_fact, path_facts
from ..flow import backward_slice
from ..rules import commute, structure
from ..rules.commute import column_effect
from ..rules import optional as optional_rules
from .common import IT_ENGINE, LEAF, MARKER, OPREL, Ctx, describe, new_run

LEVEL = "other"
LEVEL_TEXT = (
    "The property as a whole (every executed row count lies within [min_rows, max_rows] and every row has the node's "
    "columns, for every input) quantifies over runtime rows and is NOT decided as such.  Decided are the clauses that "
    "are visible in the source: (1) the row-bound formulas applied_min_rows/applied_max_rows of every operation are sound "
    "for that operation's bag semantics (reference table in sa/rules/bounds.py) - the formulas are read from the source "
    "and evaluated by the checker's own evaluator over every combination of small operand bounds (0..4 and None), actual "
    "row counts, slice windows and the column/no-column cases, which realises every ordering and every None/0/1/many case "
    "of the quantities they compare; (2) the invariance flags promise no more than the reference semantics gives; (3) the "
    "triviality flags are defined exactly (join identity <=> no columns and min = max = 1; trivial <=> that or max = 0, "
    "compared as Boolean functions) and their consumers use them the right way round; (4) every node's bounds and "
    "columns are computed by its operation from its actual operand(s), in operand order, markers delegate to their target "
    "and a re-applied marker carries exactly the payload it is given; (5) bound provenance (lower bounds from lower "
    "bounds, upper from upper, both operands of a binary operation); (6) the column effect of every operation matches "
    "the reference, exactly over Venn regions for the set formulas; (7) leaves reject max_rows < min_rows."
)
LEVEL_NOTE = (
    "Bounded, not a proof: the bound formulas are decided for operand bounds/row counts up to a small grid (all orderings "
    "of the compared quantities), not for all integers; a formula leaving the evaluator's fragment (+ - * min max, "
    "comparisons, None tests, conditionals, delegation between operations) is reported as an analysis error, never passed.  "
    "Trusted: leaf bounds and columns declared by the caller; the reference bag semantics table."
)
TECHNIQUE = "finite-domain evaluation of bound formulas read from the ast against a reference semantics table + Boolean-function comparison of flag definitions + provenance/shape rules on ast paths"

PASS_THROUGH = ("Calculation", "Projection", "Sort", "Identity")


def check(model, tier):
    run, ctx = new_run("C06", tier, LEVEL, model, "Flag definitions and consumers, delegation of node bounds, provenance of bound formulas and column effects are decided; numeric truth of the formulas is not.")
    m, k = model, ctx.k
    structure.r06_1_flags(ctx)
    optional_rules.r_optional_truthiness(ctx, "R06.5")
    commute.r04_4_set_formulas(ctx, rule="R06.6")
    from ..rules import bounds

    bounds.r06_7_bound_formulas(ctx)

    run.rule("R06.2", "node metadata delegates: operation nodes ask their operation with their own operand(s) in order; markers delegate to their target; leaves validate max_rows >= min_rows", 10)
    for cname, operands in (("UnaryOperationRelation", ["self.target"]), ("BinaryOperationRelation", ["self.lhs", "self.rhs"])):
        c = ctx.cls(OPREL, cname)
        for prop, meth in (("min_rows", "applied_min_rows"), ("max_rows", "applied_max_rows")):
            f = c.methods.get(prop)
            rets = [p.value for p in ctx.paths(f)] if f else []
            ok = bool(rets) and all(isinstance(r, ast.Call) and src(r.func) == f"self.operation.{meth}" and [src(a) for a in r.args] == operands for r in rets)
            inst = f"{cname}.{prop}"
            if ok:
                run.ok("R06.2", inst)
            else:
                run.fail("R06.2", inst, f"{cname}.{prop} is not self.operation.{meth}({', '.join(operands)})", fi=f or c.methods.get("engine"))
    mk = ctx.cls(MARKER, "MarkerRelation")
    for prop in ("min_rows", "max_rows", "columns"):
        f = mk.methods.get(prop)
        rets = [src(p.value) for p in ctx.paths(f)] if f else []
        if rets == [f"self.target.{prop}"]:
            run.ok("R06.2", f"MarkerRelation.{prop}")
        else:
            run.fail("R06.2", f"MarkerRelation.{prop}", f"MarkerRelation.{prop} returns {rets} instead of its target's {prop}", fi=f or mk.methods["engine"])
        for sub in m.subclasses(mk, strict=True):
            if prop in sub.methods or any(fl.name == prop for fl in sub.own_fields):
                run.fail("R06.2", f"{sub.name}.{prop}:override", f"marker class {sub.name} overrides `{prop}`", file=sub.module.path, line=sub.node.lineno, func=sub.name)
    # constructors take columns from applied_columns of the actual operands
    for rel, qn, operands in (("_unary_operation.py", "UnaryOperation._finish_apply", 1), ("_binary_operation.py", "BinaryOperation._finish_apply", 2)):
        f = m.func(rel, qn)
        ps = [q for q in f.params if q != "self"]
        ok = False
        for c in iter_calls(f.node):
            if (dotted(c.func) or "").endswith("OperationRelation"):
                col = kw(c, "columns")
                ok = isinstance(col, ast.Call) and src(col.func) == "self.applied_columns" and [src(a) for a in col.args] == ps[:operands]
                ok = ok and all(kw(c, name) is not None and src(kw(c, name)) == name for name in ps[:operands])
        if ok:
            run.ok("R06.2", f"{qn}:columns")
        else:
            run.fail("R06.2", f"{qn}:columns", "the node is not built with columns=self.applied_columns(<its own operands>)", fi=f)
    lp = ctx.cls(LEAF, "LeafRelation").methods.get("__post_init__")
    if lp is not None and any(p.raises("ValueError") and has_fact(path_facts(p), "LT", ("self.max_rows", "self.min_rows"), True) for p in ctx.paths(lp)):
        run.ok("R06.2", "LeafRelation:max>=min")
    else:
        run.fail("R06.2", "LeafRelation:max>=min", "LeafRelation no longer rejects max_rows < min_rows", fi=lp)
    ml = m.func(IT_ENGINE, "Engine.make_leaf")
    okl = False
    for c in iter_calls(ml.node):
        if (dotted(c.func) or "").split(".")[-1] == "LeafRelation":
            a, b = kw(c, "min_rows"), kw(c, "max_rows")
            okl = a is not None and b is not None and src(a) == src(b) == "len(payload)"
    if okl:
        run.ok("R06.2", "iteration.make_leaf:exact-bounds")
    else:
        run.fail("R06.2", "iteration.make_leaf:exact-bounds", "iteration make_leaf does not declare min_rows = max_rows = len(payload)", fi=ml)

    run.rule("R06.3", "bound provenance: applied_min_rows reads only operands' min_rows, applied_max_rows only max_rows (and columns for the zero-column case); binary operations read both operands", 16)
    for c in k.concrete(k.unary_ops) + k.concrete(k.binary_ops) + [ctx.cls("_unary_operation.py", "RowFilter"), ctx.cls("_unary_operation.py", "Reordering")]:
        if c in k.placeholders and c.name != "Identity":
            continue
        for meth, want, other in (("applied_min_rows", "min_rows", "max_rows"), ("applied_max_rows", "max_rows", "min_rows")):
            f = c.methods.get(meth)
            if f is None:
                continue
            ps = [q for q in f.params if q != "self"]
            chains = set()
            for n in ast.walk(f.node):
                if isinstance(n, ast.Attribute):
                    ch = attr_chain(n)
                    if ch and ch[0] in ps:
                        chains.add(ch)
            inst = f"{c.name}.{meth}"
            bad = [ch for ch in chains if other in ch]
            if bad:
                run.fail("R06.3", inst, f"{c.name}.{meth} reads `{'.'.join(bad[0])}`: a {'lower' if want == 'min_rows' else 'upper'} bound must be derived from the operands' {want} only", fi=f)
                continue
            reads = {ch[0] for ch in chains if want in ch}
            consts = all(isinstance(p.value, ast.Constant) for p in ctx.paths(f) if p.outcome == "return")
            if len(ps) == 2 and not consts and reads != set(ps):
                run.fail("R06.3", inst, f"{c.name}.{meth} reads the {want} of {sorted(reads)} only; a binary operation's bound depends on both operands", fi=f)
            else:
                run.ok("R06.3", inst, {"reads": sorted('.'.join(ch) for ch in chains)})
    # pass-through operations: bounds are the target's own
    for cname in PASS_THROUGH:
        c = ctx.op_class(cname)
        for meth, attr in (("applied_min_rows", "min_rows"), ("applied_max_rows", "max_rows")):
            f = m.method(c, meth)
            if f is None or f.is_abstract:
                continue
            t = [q for q in f.params if q != "self"][0]
            rets = [src(p.value) for p in ctx.paths(f) if p.outcome == "return"]
            inst = f"{cname}.{meth}:pass-through"
            if rets == [f"{t}.{attr}"]:
                run.ok("R06.3", inst)
            else:
                run.fail("R06.3", inst, f"{cname} neither adds nor removes rows, but {meth} returns {rets} instead of the target's {attr}", fi=f)
    # shapes that are visible: chain sums, join lower bound 0, selection lower bound 0, slice clamps at 0
    ch = ctx.op_class("Chain")
    for meth, attr in (("applied_min_rows", "min_rows"), ("applied_max_rows", "max_rows")):
        f = ch.methods.get(meth)
        ps = [q for q in f.params if q != "self"]
        sums = [n for n in ast.walk(f.node) if isinstance(n, ast.BinOp) and isinstance(n.op, ast.Add) and {src(n.left), src(n.right)} == {f"{ps[0]}.{attr}", f"{ps[1]}.{attr}"}]
        if sums:
            run.ok("R06.3", f"Chain.{meth}:sum")
        else:
            run.fail("R06.3", f"Chain.{meth}:sum", f"a chain has the rows of both operands; {meth} is not the sum of their {attr}", fi=f)
    for cname in ("Join", "Selection"):
        f = ctx.op_class(cname).methods.get("applied_min_rows")
        rets = [p.value for p in ctx.paths(f) if p.outcome == "return"] if f else []
        if rets and all(isinstance(r, ast.Constant) and r.value == 0 for r in rets):
            run.ok("R06.3", f"{cname}.applied_min_rows:zero")
        else:
            run.fail("R06.3", f"{cname}.applied_min_rows:zero", f"a {cname.lower()} can remove every row, so its lower bound must be 0", fi=f)
    jm = ctx.op_class("Join").methods.get("applied_max_rows")
    jps = [q for q in jm.params if q != "self"]
    for i, p in enumerate(ctx.paths(jm)):
        if p.outcome != "return":
            continue
        v = p.value
        facts = path_facts(p)
        inst = f"Join.applied_max_rows:path{i}"
        if isinstance(v, ast.Constant) and v.value == 0:
            ok = any(f.kind == "OR" or (f.kind == "EQ" and f.polarity and "0" in f.args) for f in facts)
        elif isinstance(v, ast.Constant) and v.value is None:
            ok = any(f.kind == "OR" or (f.kind == "IS" and f.polarity and "None" in f.args) for f in facts)
        else:
            ok = isinstance(v, ast.BinOp) and isinstance(v.op, ast.Mult) and {src(v.left), src(v.right)} == {f"{jps[0]}.max_rows", f"{jps[1]}.max_rows"}
        if ok:
            run.ok("R06.3", inst)
        else:
            run.fail("R06.3", inst, f"Join.applied_max_rows returns `{src(v)}`: relations are bags, so the only sound upper bounds are 0 (an empty operand), None (an unbounded one) or the product of both operands' max_rows", fi=jm, node=p.node, details=describe(p))
    sl = ctx.op_class("Slice")
    for meth in ("applied_min_rows", "applied_max_rows"):
        f = sl.methods.get(meth)
        rets = [p.value for p in ctx.paths(f) if p.outcome == "return"]
        ok = all((isinstance(r, ast.Constant) and r.value is None) or (isinstance(r, ast.Call) and call_attr(r) == "max" and any(isinstance(a, ast.Constant) and a.value == 0 for a in r.args)) for r in rets)
        txt = src(f.node)
        ok = ok and "self.start" in txt and "self.stop" in txt
        if ok:
            run.ok("R06.3", f"Slice.{meth}:window")
        else:
            run.fail("R06.3", f"Slice.{meth}:window", f"Slice.{meth} is not a window bound of the form max(<stop-side> - start, 0) using both start and stop", fi=f)

    run.rule("R06.4", "column effect of every operation matches the reference: calculation adds its tag, projection keeps exactly its columns, join unions, chain/others pass columns through", 8)
    ref = {"Calculation": "grow", "Projection": "shrink", "Deduplication": "same", "Selection": "same", "Slice": "same", "Sort": "same", "Identity": "same"}
    for cname, want in ref.items():
        c = ctx.op_class(cname)
        eff = column_effect(ctx, c)
        if eff == want:
            run.ok("R06.4", f"{cname}.applied_columns:{want}")
        else:
            run.fail("R06.4", f"{cname}.applied_columns:{want}", f"{cname}.applied_columns has effect `{eff}`, reference says `{want}`", fi=m.method(c, "applied_columns"))
    calc = ctx.op_class("Calculation").methods.get("applied_columns")
    if calc is not None and "self.tag" in src(calc.node):
        run.ok("R06.4", "Calculation.applied_columns:tag")
    else:
        run.fail("R06.4", "Calculation.applied_columns:tag", "Calculation.applied_columns does not add self.tag", fi=calc)
    jn = ctx.op_class("Join").methods.get("applied_columns")
    jp = [q for q in jn.params if q != "self"]
    rets = [src(p.value) for p in ctx.paths(jn)]
    if rets in ([f"{jp[0]}.columns | {jp[1]}.columns"], [f"{jp[1]}.columns | {jp[0]}.columns"]):
        run.ok("R06.4", "Join.applied_columns:union")
    else:
        run.fail("R06.4", "Join.applied_columns:union", f"Join.applied_columns returns {rets}, not the union of both operands' columns", fi=jn)
    structure.r_marker_reapply(ctx, "R06.8")
    run.assume("leaf bounds and columns declared by callers are truthful")
    from ..rules.foundation import run_foundation

    run_foundation(ctx, "06")
    return run
