"""C19 - generated relation names are unique across all calls and threads."""

from __future__ import annotations

import ast

from ..astutil import AnalysisError, call_attr, dotted, iter_calls, kw, src
from ..facts import path_facts
from ..paths import env_at
from .common import ENGINE, LEAF, RELATION, SQL_ENGINE, Ctx, describe, new_run

LEVEL = "proof"
LEVEL_TEXT = (
    "Structural proof: every name the package invents is produced by get_relation_name, whose result on every path is "
    "`prefix` followed by text containing an untruncated uuid.uuid4() value; uniqueness over all histories, threads and "
    "engines then rests on uuid4 (128 random bits, no shared state), not on the non-atomic counter."
)
LEVEL_NOTE = (
    "Trusted: uuid.uuid4 collision-freedom and thread safety; names passed in explicitly by callers are the callers' "
    "responsibility; extension engines that implement Engine.get_relation_name themselves are out of scope."
)
TECHNIQUE = "string-construction shape check on all paths + who-may-invent-names call-site scan (ast)"


def _pieces(node: ast.expr) -> list[ast.expr] | None:
    """Flatten an f-string / string concatenation into its ordered pieces."""
    if isinstance(node, ast.JoinedStr):
        return list(node.values)
    if isinstance(node, ast.BinOp) and isinstance(node.op, ast.Add):
        a, b = _pieces(node.left), _pieces(node.right)
        if a is None or b is None:
            return None
        return a + b
    if isinstance(node, ast.Call) and isinstance(node.func, ast.Attribute) and node.func.attr == "join":
        if node.args and isinstance(node.args[0], (ast.Tuple, ast.List)):
            return list(node.args[0].elts)
        return None
    if isinstance(node, ast.Call) and isinstance(node.func, ast.Attribute) and node.func.attr == "format":
        t = node.func.value
        if not (isinstance(t, ast.Constant) and isinstance(t.value, str)) or node.keywords or any(isinstance(a, ast.Starred) for a in node.args):
            return None
        import string

        out: list[ast.expr] = []
        k = 0
        try:
            fields = list(string.Formatter().parse(t.value))
        except ValueError:
            return None
        for lit, field, spec, conv in fields:
            if lit:
                out.append(ast.Constant(lit))
            if field is None:
                continue
            if field == "":
                idx = k
                k += 1
            elif field.isdigit():
                idx = int(field)
            else:
                return None
            if idx >= len(node.args):
                return None
            arg = node.args[idx]
            if spec and "." in spec:
                arg = ast.Subscript(value=arg, slice=ast.Slice(), ctx=ast.Load())  # a precision cuts the text
            out.append(arg)
        return out
    if isinstance(node, ast.BinOp) and isinstance(node.op, ast.Mod) and isinstance(node.left, ast.Constant) and isinstance(node.left.value, str):
        import re

        args = list(node.right.elts) if isinstance(node.right, ast.Tuple) else [node.right]
        if any(isinstance(a, ast.Starred) for a in args):
            return None
        out = []
        pos = 0
        k = 0
        for mt in re.finditer(r"%(\([^)]*\))?[-#0 +]*(\*|\d+)?(\.(\*|\d+))?([diouxXeEfFgGcrsa%])", node.left.value):
            if mt.start() > pos:
                out.append(ast.Constant(node.left.value[pos : mt.start()]))
            pos = mt.end()
            if mt.group(5) == "%":
                out.append(ast.Constant("%"))
                continue
            if mt.group(1) or mt.group(2) == "*" or mt.group(4) == "*" or k >= len(args):
                return None
            arg = args[k]
            k += 1
            if mt.group(3) and mt.group(5) in "sra":
                arg = ast.Subscript(value=arg, slice=ast.Slice(), ctx=ast.Load())
            out.append(arg)
        if pos < len(node.left.value):
            out.append(ast.Constant(node.left.value[pos:]))
        if k != len(args):
            return None
        return out
    if isinstance(node, (ast.Constant, ast.Name, ast.Attribute, ast.Call, ast.FormattedValue, ast.Subscript)):
        return [node]
    return None


def _uuid_component(piece: ast.expr) -> tuple[bool, bool]:
    """(contains a uuid4() call, that value is truncated/sliced)."""
    has = False
    truncated = False
    for n in ast.walk(piece):
        if isinstance(n, ast.Call) and (dotted(n.func) or "").split(".")[-1] == "uuid4":
            has = True
    if has:
        for n in ast.walk(piece):
            if isinstance(n, ast.Subscript) and any(
                isinstance(c, ast.Call) and (dotted(c.func) or "").split(".")[-1] == "uuid4" for c in ast.walk(n.value)
            ):
                truncated = True
            if isinstance(n, ast.BinOp) and isinstance(n.op, (ast.Mod, ast.BitAnd, ast.RShift, ast.FloorDiv)):
                truncated = True
        if isinstance(piece, ast.FormattedValue) and piece.format_spec is not None:
            spec = src(piece.format_spec)
            if "." in spec:  # precision truncates strings
                truncated = True
    return has, truncated


def check(model, tier):
    run, ctx = new_run(
        "C19",
        tier,
        LEVEL,
        model,
        "All name-inventing sites are enumerated and shown to go through get_relation_name, whose every return is "
        "prefix + ... + uuid4; quantification over histories and thread schedules is discharged by uuid4's "
        "statelessness instead of by reasoning about the counter.",
    )
    m = model
    run.rule("R19.1", "every get_relation_name implementation returns `prefix` + text containing an untruncated uuid.uuid4()", 1)
    run.rule("R19.2", "every invented name comes from get_relation_name(<caller's prefix>); name/prefix arguments are forwarded in order", 4)

    engine_root = ctx.cls(ENGINE, "Engine")
    impls = []
    for c in m.subclasses(engine_root):
        f = c.methods.get("get_relation_name")
        if f is not None and not f.is_abstract:
            impls.append(f)
    if not impls:
        raise AnalysisError("no concrete get_relation_name implementation in the package")
    for f in impls:
        ps = [p for p in f.params if p != "self"]
        if not ps:
            run.fail("R19.1", f"{f.qualname}:signature", "get_relation_name takes no prefix parameter", fi=f)
            continue
        prefix = ps[0]
        if any(isinstance(n, (ast.With, ast.Try)) for n in ast.walk(f.node)):
            raise AnalysisError(f"{f.key} uses with/try; the name-shape rule cannot decide it")
        for i, p in enumerate(ctx.paths(f)):
            inst = f"{f.qualname}:path{i}"
            if p.outcome == "raise":
                run.ok("R19.1", inst)
                continue
            if p.outcome != "return" or p.value is None:
                run.fail("R19.1", inst, "a path returns no name", fi=f, node=p.node or f.node, details=describe(p))
                continue
            v = p.value
            if isinstance(v, ast.Name):
                bound = env_at(p).get(v.id)
                if isinstance(bound, ast.expr):
                    v = bound
            # an override that delegates to the verified base implementation is as good as the base
            if isinstance(v, ast.Call) and src(v.func) == "super().get_relation_name" and [src(a) for a in v.args] + [src(k.value) for k in v.keywords] == [prefix]:
                run.ok("R19.1", inst, {"returns": src(v), "delegates": True})
                continue
            # the whole name cut to a length: the random part sits at the end, so this is where it is lost
            if isinstance(v, ast.Subscript) and isinstance(v.slice, ast.Slice):
                run.fail(
                    "R19.1",
                    inst,
                    f"the generated name is truncated (`{src(v)[:70]}`): the unique uuid4 part is at the end of the name, so a long "
                    "caller-supplied prefix leaves little or nothing of it and names repeat",
                    fi=f,
                    node=p.node,
                    details=describe(p),
                )
                continue
            # the name handed back must be the value this call built, not something read back from engine state that
            # another request may have written in between
            root = v
            while isinstance(root, (ast.Subscript, ast.Attribute)):
                root = root.value
            if isinstance(v, (ast.Subscript, ast.Attribute)) and isinstance(root, ast.Name) and root.id == "self":
                run.fail(
                    "R19.1",
                    inst,
                    f"the name is read back from shared engine state (`{src(v)[:60]}`) instead of being the value this call built: a request served by another "
                    "thread between the write and the read makes both calls return the same string",
                    fi=f,
                    node=p.node,
                    details=describe(p),
                )
                continue
            # text the caller supplied must never be *interpreted*: an f-string that already contains the prefix and is
            # then used as a %-/format() template gives `%`/`{` in the prefix a meaning
            tmpl = v.left if isinstance(v, ast.BinOp) and isinstance(v.op, ast.Mod) else v.func.value if isinstance(v, ast.Call) and isinstance(v.func, ast.Attribute) and v.func.attr in ("format", "format_map") else None
            if isinstance(tmpl, ast.Name) and isinstance(env_at(p).get(tmpl.id), ast.expr):
                tmpl = env_at(p)[tmpl.id]
            if tmpl is not None and not isinstance(tmpl, ast.Constant) and any(isinstance(n, ast.Name) and n.id == prefix for n in ast.walk(tmpl)):
                run.fail(
                    "R19.1",
                    inst,
                    f"the requested prefix is pasted into a template that is formatted afterwards (`{src(v)[:80]}`): a prefix containing a format "
                    "directive (`%`, `{`) raises or is rewritten instead of being the beginning of the name",
                    fi=f,
                    node=p.node,
                    details=describe(p),
                )
                continue
            pieces = _pieces(v)
            if pieces is None:
                raise AnalysisError(f"{f.key}: returned name {src(p.value)} is built in a way the rule does not recognise")
            first = pieces[0] if pieces else None
            first_val = first.value if isinstance(first, ast.FormattedValue) else first
            starts = isinstance(first_val, ast.Name) and first_val.id == prefix
            if isinstance(first, ast.FormattedValue) and first.format_spec is not None:
                starts = False
            comps = [_uuid_component(x) for x in pieces]
            has_uuid = any(h for h, _ in comps)
            trunc = any(t for h, t in comps if h)
            cut_prefix = isinstance(first_val, ast.Subscript) and isinstance(first_val.value, ast.Name) and first_val.value.id == prefix
            if cut_prefix:
                run.fail(
                    "R19.1",
                    inst,
                    f"the generated name begins with a *part* of the requested prefix (`{src(first_val)[:50]}`): a long prefix is cut, so the name no longer begins with what was asked for, and "
                    "two prefixes that differ only after the cut give names that cannot be told apart by prefix",
                    fi=f,
                    node=p.node,
                    details=describe(p),
                )
            elif not starts:
                run.fail("R19.1", inst, f"the generated name does not begin with the requested prefix `{prefix}` ({src(v)})", fi=f, node=p.node, details=describe(p))
            elif not has_uuid:
                run.fail(
                    "R19.1",
                    inst,
                    "the generated name has no uuid4 component: uniqueness would rest on the per-engine counter, which is "
                    "neither atomic under threads nor distinct across engines",
                    fi=f,
                    node=p.node,
                    details=describe(p),
                )
            elif trunc:
                run.fail("R19.1", inst, "the uuid4 component of the generated name is truncated", fi=f, node=p.node, details=describe(p))
            else:
                run.ok("R19.1", inst, {"returns": src(v), "prefix_param": prefix})

    # ---- R19.2: who invents names
    # (a) LeafRelation.__post_init__: a missing name is replaced by get_relation_name(name_prefix)
    post = m.func(LEAF, "LeafRelation.__post_init__")
    found = False
    for call in iter_calls(post.node):
        if call_attr(call) in ("__setattr__", "setattr") and len(call.args) >= 3 and isinstance(call.args[1], ast.Constant) and call.args[1].value == "name":
            found = True
            val = call.args[2]
            if isinstance(val, ast.Name):
                # a local holding the generated name
                binds = [n.value for n in ast.walk(post.node) if isinstance(n, ast.Assign) and any(isinstance(t, ast.Name) and t.id == val.id for t in n.targets)]
                binds += [n.value for n in ast.walk(post.node) if isinstance(n, ast.NamedExpr) and isinstance(n.target, ast.Name) and n.target.id == val.id]
                if len(binds) == 1:
                    val = binds[0]
            ok = isinstance(val, ast.Call) and call_attr(val) == "get_relation_name" and val.args and isinstance(val.args[0], ast.Name) and val.args[0].id in post.params
            if ok:
                run.ok("R19.2", "LeafRelation.__post_init__:default-name", {"store": src(call)})
            else:
                run.fail("R19.2", "LeafRelation.__post_init__:default-name", f"default leaf name is not get_relation_name(<prefix parameter>): {src(val)}", fi=post, node=call)
    if not found:
        run.fail(
            "R19.2",
            "LeafRelation.__post_init__:default-name",
            "LeafRelation.__post_init__ no longer gives an unnamed leaf a generated name: LeafRelation(...) is a public "
            "constructor (and the only way for engines without make_leaf), so leaves built directly all share the empty name",
            fi=post,
        )
    # (b) Engine.materialize (all overrides): `name` is the parameter, or get_relation_name(name_prefix)
    for c in m.subclasses(engine_root):
        f = c.methods.get("materialize")
        if f is None:
            continue
        params = f.params
        if "name" not in params or "name_prefix" not in params:
            raise AnalysisError(f"{f.key} lost its name/name_prefix parameters")

        def name_ok(val: ast.expr | None, depth: int = 4) -> bool:
            """The caller's `name`, or get_relation_name(name_prefix), or a choice between such values."""
            if val is None or depth < 0:
                return False
            if isinstance(val, ast.Name):
                if val.id == "name":
                    return True
                binds = [n.value for n in ast.walk(f.node) if isinstance(n, ast.Assign) and any(isinstance(t, ast.Name) and t.id == val.id for t in n.targets)]
                return bool(binds) and all(name_ok(b, depth - 1) for b in binds)
            if isinstance(val, ast.IfExp):
                return name_ok(val.body, depth - 1) and name_ok(val.orelse, depth - 1)
            if isinstance(val, ast.BoolOp) and isinstance(val.op, ast.Or):
                return all(name_ok(x, depth - 1) for x in val.values)
            if isinstance(val, ast.NamedExpr):
                return name_ok(val.value, depth - 1)
            return isinstance(val, ast.Call) and call_attr(val) == "get_relation_name" and bool(val.args) and src(val.args[0]) == "name_prefix"

        for node in ast.walk(f.node):
            if isinstance(node, ast.Assign) and any(isinstance(t, ast.Name) and t.id == "name" for t in node.targets):
                val = node.value
                ok = name_ok(val)
                inst = f"{f.qualname}:name-default"
                if ok:
                    run.ok("R19.2", inst, {"assign": src(node)})
                else:
                    run.fail("R19.2", inst, f"materialization name is invented without get_relation_name(name_prefix): {src(node)}", fi=f, node=node)
        for call in iter_calls(f.node):
            name = dotted(call.func) or ""
            if name.split(".")[-1] == "Materialization":
                nm = kw(call, "name")
                inst = f"{f.qualname}:Materialization(name=)"
                if name_ok(nm):
                    run.ok("R19.2", inst)
                else:
                    run.fail("R19.2", inst, f"Materialization is constructed with name={src(nm)} instead of the resolved `name`", fi=f, node=call)
            if name == "super().materialize":
                inst = f"{f.qualname}:super().materialize"
                args = [src(a) for a in call.args] + [f"{k.arg}={src(k.value)}" for k in call.keywords]
                a_name = src(call.args[1]) if len(call.args) > 1 else src(kw(call, "name"))
                a_pref = src(call.args[2]) if len(call.args) > 2 else src(kw(call, "name_prefix"))
                if a_name == "name" and a_pref == "name_prefix":
                    run.ok("R19.2", inst, {"call": src(call)})
                else:
                    run.fail("R19.2", inst, f"name / name_prefix are not forwarded in order to the base materialize ({', '.join(args)})", fi=f, node=call)
    # (c) BaseRelation.materialized forwards name and prefix
    mat = m.func(RELATION, "BaseRelation.materialized")
    calls = [c for c in iter_calls(mat.node) if call_attr(c) == "materialize"]
    if not calls:
        raise AnalysisError("BaseRelation.materialized no longer calls engine.materialize")
    for call in calls:
        a_name = src(call.args[1]) if len(call.args) > 1 else src(kw(call, "name"))
        a_pref = src(call.args[2]) if len(call.args) > 2 else src(kw(call, "name_prefix"))
        if a_name == "name" and a_pref == "name_prefix":
            run.ok("R19.2", "BaseRelation.materialized:forward", {"call": src(call)})
        else:
            run.fail("R19.2", "BaseRelation.materialized:forward", f"name / name_prefix not forwarded in order ({src(call)})", fi=mat, node=call)
    # (d) leaf factories forward name / name_prefix by keyword
    for rel in ("iteration/_engine.py", SQL_ENGINE):
        f = m.func(rel, "Engine.make_leaf")
        for call in iter_calls(f.node):
            if (dotted(call.func) or "").split(".")[-1] == "LeafRelation":
                inst = f"{f.module.rel}:{f.qualname}:LeafRelation"
                nm, pf = kw(call, "name"), kw(call, "name_prefix")
                if nm is not None and src(nm) == "name" and pf is not None and src(pf) == "name_prefix":
                    run.ok("R19.2", inst)
                else:
                    run.fail("R19.2", inst, "make_leaf does not forward name= / name_prefix= to LeafRelation", fi=f, node=call)
    # (f) a missing name is filled in only by the generator: no function assigns its `name` parameter anything else
    for f in m.all_functions():
        if "name" not in f.params or f.module.rel.startswith("tests"):
            continue
        if not any(q in f.params for q in ("name_prefix", "prefix")):
            continue
        for n in ast.walk(f.node):
            tgt = None
            if isinstance(n, ast.Assign) and any(isinstance(t, ast.Name) and t.id == "name" for t in n.targets):
                tgt = n.value
            elif isinstance(n, ast.NamedExpr) and isinstance(n.target, ast.Name) and n.target.id == "name":
                tgt = n.value
            if tgt is None:
                continue
            inst = f"{f.module.rel}:{f.qualname}:name-default"
            ok = any(isinstance(c, ast.Call) and call_attr(c) == "get_relation_name" for c in ast.walk(tgt))
            if ok:
                run.ok("R19.2", inst)
            else:
                run.fail("R19.2", inst, f"{f.qualname} fills in a missing name with `{src(tgt)[:60]}`, not with get_relation_name(<prefix>): two relations can get the same name, and it ignores the requested prefix", fi=f, node=n)
    # (e) the requested prefix travels unchanged: no function re-binds its prefix parameter
    for f in m.all_functions():
        for pname in ("name_prefix", "prefix"):
            if pname not in f.params or f.module.rel.startswith("tests"):
                continue
            stores = [n for n in ast.walk(f.node) if isinstance(n, ast.Name) and n.id == pname and isinstance(n.ctx, ast.Store)]
            inst = f"{f.module.rel}:{f.qualname}:{pname}:as-given"
            if stores:
                run.fail("R19.2", inst, f"{f.qualname} re-binds its `{pname}` parameter before using it: the generated name no longer begins with the prefix the caller asked for", fi=f, node=stores[0])
            else:
                run.ok("R19.2", inst)
    run.assume("uuid.uuid4 values are pairwise distinct and uuid4 is safe to call from several threads")
    run.assume("names supplied explicitly by the caller (name=...) are the caller's responsibility")
    from ..rules.foundation import run_foundation

    run_foundation(ctx, "19", only=("F01", "F06", "F09", "F12", "F23"))
    return run
