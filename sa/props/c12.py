"""C12 - column expressions mean the same thing in every engine."""

from __future__ import annotations

from ..rules import dispatch, expressions
from .common import new_run

LEVEL = "other"
LEVEL_TEXT = (
    "Sibling cross-check of the iteration and SQL converters: both are total over the same closed node sets, every arm "
    "reads every semantic field of its node, both use the one shared function-lookup protocol (operator module first, "
    "then the method of the first argument), the connective table (all/and_, any/or_, not/not_, empty cases) and the "
    "operand roles of membership agree.  The SQL translation of membership in a range literal is decided exactly on a "
    "bounded grid: the translating arm is interpreted from the source for every range with bounds -5..5 and steps -3..3 "
    "(empty, descending and negative ones included) and the emitted expression is evaluated, with SQL's sign-of-dividend "
    "`%`, on every item around the range and compared with Python's `in range` - this found and now guards defect D14.  "
    "Constant folding is decided by evaluation on all small predicate trees.  Agreement of the arithmetic and comparison "
    "operators themselves on all integers is not decided."
)
LEVEL_NOTE = "Trusted: python's operator module and sqlalchemy operators denote the same functions on NULL-free integers for the portable operator set; SQL `%` truncates towards zero (SQLite, PostgreSQL, MySQL).  The range decision is bounded (small bounds and steps), not a proof for all integers."
TECHNIQUE = "cross-implementation agreement rules over the closed expression hierarchy (ast paths, backward slices) + finite-domain interpretation of the range-translation arm with symbolic SQL values"


def check(model, tier):
    run, ctx = new_run("C12", tier, LEVEL, model, "Structural agreement of the two converter families is decided; numeric agreement on values is not.")
    dispatch.r08_1_totality(ctx, rule="R12.0", scope="convert")
    expressions.r12_1_field_coverage(ctx)
    expressions.r12_2_function_lookup(ctx)
    expressions.r12_3_connectives(ctx)
    expressions.r12_4_operand_roles(ctx)
    expressions.r12_6_factories(ctx)
    expressions.r13_1_as_trivial(ctx, rule="R12.5")
    from ..rules import rangesql

    rangesql.r12_7_range_membership(ctx)
    from ..rules import sqlemit as _sqlemit

    _sqlemit.r_anonymous_binds(ctx, "R12.8")
    _sqlemit.r_flattened_predicate(ctx, "R12.9")
    from ..rules.foundation import run_foundation

    run_foundation(ctx, "12")
    return run
