"""C02 - SQL compilation preserves relational semantics."""

from __future__ import annotations

from ..rules import sqlemit, sqlplace
from ..rules import mutation, structure, triviality
from .common import new_run

LEVEL = "other"
LEVEL_TEXT = (
    "Decides the finite placement logic and column provenance the property's mechanism rests on, not what a database "
    "returns: (1) all 8 operation classes x 32 Select states are evaluated abstractly through _append_unary_to_select "
    "and every feasible placement is compared with a clause-order reference (a new operation may share the SELECT only "
    "if it commutes with every later occupied clause); (2) the joined Payload provably draws from both operands and a "
    "stripped projection can never shadow a column of the other operand; (3) hoisted projections, UNION vs UNION ALL / "
    "DISTINCT pairing, sliced chain operands and the emission of every payload field are checked on all paths."
)
LEVEL_NOTE = (
    "Trusted: the clause-order reference table (DESIGN.md C02) and sqlalchemy's generative API.  Not decided: the "
    "multiset a DBMS returns for the emitted SQL (runtime), numeric/expression translation (see C12)."
)
TECHNIQUE = "abstract interpretation of the placement function over all Select states + per-path provenance slices (ast)"


def check(model, tier):
    run, ctx = new_run(
        "C02",
        tier,
        LEVEL,
        model,
        "Exhaustive over the rule space written in the source (256 class x state cells, all paths of the join/chain arms "
        "and of _select_to_executable); row-level equivalence with a database is a runtime statement and is not decided.",
    )
    sqlplace.r02_1_placement_table(ctx)
    sqlemit.r02_2_join_payload(ctx)
    sqlemit.r02_3_hoisted_projection(ctx)
    sqlemit.r02_4_compound(ctx)
    sqlemit.r02_5_emission_coverage(ctx)
    sqlplace.r08_2_compound_guard(ctx)
    triviality.r05_2_noop_predicates_agree(ctx, rule="R02.6")
    structure.r06_1_flags(ctx, rule="R02.7")
    mutation.r09_4_no_shared_mutation(ctx)
    from ..rules import purity
    from .common import SQL_ENGINE as _SQL

    purity.r_engine_stateless(ctx, "R02.8", _SQL, ("to_executable", "to_payload", "conform", "append_unary", "append_binary"))
    sqlplace.r_sort_mapping(ctx, "R02.9")
    run.assume("within one SELECT the clauses act in the order WHERE -> ORDER BY -> select list -> DISTINCT -> OFFSET/LIMIT")
    from ..rules import bounds as _bounds

    _bounds.r06_7_bound_formulas(ctx, rule="R02.10")
    sqlplace.r_inner_calculation_name(ctx, "R02.11")
    sqlemit.r_select_list_order(ctx, "R02.12")
    sqlemit.r_identifier_agreement(ctx, "R02.14")
    sqlplace.r08_3_order_by_scope(ctx, rule="R02.16")
    sqlplace.r11_3_emission(ctx, rule="R02.18")  # what reaches the SELECT list / ORDER BY / DISTINCT of the emitted query  # an accepted tree must compile: refusing it is no SELECT at all
    sqlemit.r_anonymous_binds(ctx, "R02.15")
    sqlemit.r_flattened_predicate(ctx, "R02.17")
    sqlemit.r_select_never_empty(ctx, "R02.19")
    sqlplace.r_slice_keeps_its_sort(ctx, "R02.20")
    sqlplace.r_subquery_keeps_its_slots(ctx, "R02.21")
    from ..rules import merge as _merge, mergeeval as _mergeeval

    _merge.r05_3_merged_constructors(ctx, rule="R02.22")  # the Slice arm folds slices into one LIMIT/OFFSET with Slice.then, sorts with Sort.then
    _mergeeval.r05_9_merge_semantics(ctx, rule="R02.23")
    from ..rules import rangesql as _rangesql

    _rangesql.r12_7_range_membership(ctx, rule="R02.13")
    from ..rules.foundation import run_foundation

    run_foundation(ctx, "02")
    return run
