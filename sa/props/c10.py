"""C10 - payloads are write-once and materializations are computed at most once."""

from __future__ import annotations

from ..rules import payload
from ..rules import optional as optional_rules
from .common import new_run

LEVEL = "proof"


def check(model, tier):
    run, ctx = new_run(
        "C10",
        tier,
        LEVEL,
        model,
        "Single-writer / dominance argument over the only mutable slot of a relation tree: every store to "
        "`payload` in the package is enumerated (assignment, setattr, __dict__), must be the one in "
        "MarkerRelation.attach_payload and be dominated by `self.payload is None`; evaluation of a "
        "materialization (iteration execute, Processor) is dominated by the cached-payload test and "
        "followed by exactly one attach.  Histories of calls are covered because the argument is per call "
        "and the guard is on the object itself.",
    )
    payload.r10_1_single_writer(ctx)
    payload.r10_2_no_reset(ctx)
    payload.r10_3_evaluate_once(ctx)
    payload.r10_4_who_may_attach(ctx)
    optional_rules.r_optional_truthiness(ctx, "R10.5", {"payload"})
    from ..rules import processor as processor_rules
    from ..rules import structure

    processor_rules.r07_8_materialize_as(ctx, rule="R10.6")
    structure.r_marker_reapply(ctx, "R10.7")
    structure.r_select_reapply(ctx, "R10.8")
    from ..rules import dispatch as _dispatch

    # every Materialization must reach the arm that caches (not a narrower pattern that lets some fall to a generic arm)
    _dispatch.r08_1_totality(ctx, rule="R10.9", scope="iteration")
    _dispatch.r08_1_totality(ctx, rule="R10.10", scope="generic")
    _dispatch.r_execute_direct_operands(ctx, "R10.11")
    run.assume("CPython attribute semantics; code outside the package does not call object.__setattr__ on relations")
    run.assume("single-threaded histories (the property does not quantify over schedules)")
    from ..rules.foundation import run_foundation

    run_foundation(ctx, "10")
    return run

LEVEL_TEXT = (
    "Proof by exhaustive static enumeration: all attribute stores in the package are listed and the single payload "
    "writer is shown to be dominated by the None test on every path; evaluation sites are shown to be dominated by "
    "the cache test and to attach exactly once; the persisted flag each Processor arm reports and the places "
    "materialize_as may travel are pinned per arm, and markers are re-applied only for the identical (`is`) target, so a "
    "materialization is never computed a second time because a processed or payload-bearing node was dropped.  The quantifier over call histories collapses because each obligation "
    "is per call and the guard reads the object's own state."
)
LEVEL_NOTE = (
    "Trusted: CPython ast and attribute semantics; callers outside the package do not use object.__setattr__ on "
    "relations; histories are sequential.  Evaluate-once for extension engines' own execute() is out of scope."
)
TECHNIQUE = "who-may-write scan + guarded-path dominance (ast path enumeration)"
