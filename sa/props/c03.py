"""C03 - preferred-engine (backtracking) insertion never changes relation content."""

from __future__ import annotations

from ..rules import commute, expressions, structure
from .common import new_run

LEVEL = "other"
LEVEL_TEXT = (
    "Decides the protocol clauses on every path: the option handling of UnaryOperation.apply (append iff not inserted by "
    "backtracking, transfer hands the transferred relation on, require_preferred_engine raises EngineError and appends "
    "nothing, backtrack=False never backtracks), the recursion contract of backtrack_unary (locked first, unchanged tree "
    "on failure, rebuild only when upstream changed, done is a conjunction, validating apply() in the preferred engine), "
    "and - shared with C04 - that a move never makes a valid operation ill-formed and never crosses a pair the reference "
    "matrix forbids.  That the processed rows agree is implied only at type-pair level and not decided for values."
)
LEVEL_NOTE = "Trusted: the C04 reference matrix; row equality after processing is not decided."
TECHNIQUE = "per-path protocol check on enumerated ast paths + abstract interpretation of commute() (shared with C04)"


def check(model, tier):
    run, ctx = new_run(
        "C03",
        tier,
        LEVEL,
        model,
        "All 8 paths of apply() and all paths of both backtrack_unary implementations are checked against the documented "
        "protocol; commutation soundness is imported from the C04 rules.",
    )
    commute.r03_1_apply_protocol(ctx)
    commute.r03_2_backtrack_contract(ctx)
    commute.r03_5_partial_join_engine(ctx)
    from ..rules import dispatch as _dispatch3

    _dispatch3.r_to_mapping_shortcut(ctx, "R03.6")  # a deduplication pushed down to a keyed leaf must still deduplicate
    _dispatch3.r_only_deduplication_merges_rows(ctx, "R03.7")
    structure.r14_9_engine_plumbing(ctx, rule="R03.3")
    commute.r04_1_matrix(ctx)
    commute.r04_2_failure_hands_back(ctx)
    commute.r04_3_moved_stay_wellformed(ctx)
    commute.r04_4_set_formulas(ctx)
    expressions.r13_4_required_columns(ctx, rule="R04.5")
    from ..rules import mergeeval as _mergeeval

    _mergeeval.r05_9_merge_semantics(ctx, rule="R03.4")  # an operation landed by backtracking is merged with what it meets there
    from ..rules import classlevel as _classlevel

    _classlevel.r_commutator_messages(ctx, "R03.M1")
    from ..rules.foundation import run_foundation

    run_foundation(ctx, "03")
    return run
