"""C09 - relations are persistent, hashable values; evaluation is side-effect free."""

from __future__ import annotations

from ..rules import mutation, payload
from .common import new_run

LEVEL = "proof"
LEVEL_TEXT = (
    "Proof by effect analysis over the whole package: value classes are frozen and hashable by construction, the only "
    "attribute write on a value object is the guarded payload attach, and every in-place mutation in every function is "
    "shown to act on a fresh local (or on an object's own non-value state).  Since nothing reachable from a relation "
    "or leaf payload is ever written, no interleaving of factory calls, compilation, execution or processing can "
    "change a previously obtained relation."
)
LEVEL_NOTE = (
    "Trusted: CPython ast; frozen-dataclass semantics; `Any`-typed fields (literal values, leaf parameters) and "
    "sqlalchemy objects are the caller's/library's responsibility; equality of separately built trees with auto-named "
    "materializations is by design not claimed."
)
TECHNIQUE = "closed-hierarchy frozen/hashable check + whole-package mutation/freshness (ownership) analysis on ast paths"


def check(model, tier):
    run, ctx = new_run(
        "C09",
        tier,
        LEVEL,
        model,
        "Every class that is part of a relation value is enumerated from the closed hierarchies (plus the closure over "
        "compared-field annotations) and checked frozen/hashable; every attribute store and every mutating call, "
        "augmented assignment, item store and del in all functions of the package is classified by a per-path "
        "freshness analysis (fresh local vs. shared).  Identical repeated compilation/execution follows from purity.",
    )
    mutation.r09_1_frozen(ctx)
    mutation.r09_2_hashable_fields(ctx)
    mutation.r09_3_attribute_writes(ctx)
    mutation.r09_4_no_shared_mutation(ctx)
    payload.r10_2_no_reset(ctx)
    payload.r10_4_who_may_attach(ctx, rule="R09.6")
    run.assume("values of `Any`-typed fields (ColumnLiteral.value, LeafRelation.parameters) supplied by callers are hashable")
    run.assume("sqlalchemy constructs are used functionally (they return new objects)")
    from ..rules import purity as _purity

    _purity.r_no_value_keyed_cache(ctx, "R09.7")
    from ..rules.foundation import run_foundation

    run_foundation(ctx, "09")
    return run
