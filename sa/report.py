"""Violations, rule-instance accounting, evidence files, known findings, replays."""

from __future__ import annotations

import dataclasses
import hashlib
import json
import os
import sys
import time

from .astutil import AnalysisError
from .model import PKG_SUBDIR

_PIPE_BROKEN = False


def out(*args, **kwargs) -> None:
    """print() that survives a closed stdout (e.g. `./check C01 | head`): the verdict is the exit status."""
    global _PIPE_BROKEN
    if _PIPE_BROKEN:
        return
    try:
        print(*args, **kwargs)
        sys.stdout.flush()
    except BrokenPipeError:
        _PIPE_BROKEN = True
        try:
            sys.stdout = open(os.devnull, "w")
        except OSError:
            pass


VERIF_DIR = os.path.dirname(os.path.dirname(os.path.abspath(__file__)))
EVIDENCE_DIR = os.path.join(VERIF_DIR, "evidence")
REPLAY_DIR = os.path.join(VERIF_DIR, "replays")
KNOWN_FINDINGS = os.path.join(VERIF_DIR, "known_findings.json")


@dataclasses.dataclass
class Violation:
    prop: str
    rule: str
    file: str  # absolute or repo path as reported
    line: int
    func: str  # qualified function / class
    instance: str  # stable, semantic instance label (never a line number)
    message: str
    details: list[str] = dataclasses.field(default_factory=list)
    facts: dict = dataclasses.field(default_factory=dict)

    @property
    def relfile(self) -> str:
        marker = PKG_SUBDIR + "/"
        i = self.file.find(marker)
        return self.file[i + len(marker) :] if i >= 0 else os.path.basename(self.file)

    @property
    def key(self) -> str:
        return f"{self.rule}|{self.relfile}|{self.func}|{self.instance}"

    def to_json(self) -> dict:
        return {
            "property": self.prop,
            "rule": self.rule,
            "file": self.file,
            "line": self.line,
            "function": self.func,
            "instance": self.instance,
            "key": self.key,
            "message": self.message,
            "details": self.details,
            "facts": self.facts,
        }


@dataclasses.dataclass
class RuleStats:
    rule: str
    text: str
    expected_min: int
    instances: int = 0
    nontrivial: set = dataclasses.field(default_factory=set)
    failed: int = 0
    samples: list = dataclasses.field(default_factory=list)


def load_known_findings() -> list[dict]:
    if not os.path.exists(KNOWN_FINDINGS):
        return []
    with open(KNOWN_FINDINGS, encoding="utf-8") as f:
        data = json.load(f)
    return list(data.get("findings", []))


CURRENT = None  # the run being built (so that findings survive an analysis error in a later rule)


class Run:
    """Accounting for one invocation of one property's check."""

    def __init__(self, prop: str, tier: str, level: str, model, title: str = ""):
        self.prop = prop
        self.tier = tier
        self.level = level
        self.model = model
        self.title = title
        self.rules: dict[str, RuleStats] = {}
        self.violations: list[Violation] = []
        self.assumptions: list[str] = []
        self.notes: list[str] = []
        self.undecided: list[str] = []
        self.functions_analysed: set[str] = set()
        self.paths_enumerated = 0
        self.t0 = time.time()
        self.explanation = ""
        self.trusted_base: list[str] = []
        self.extra: dict = {}
        self.quiet = False

    # ---------------------------------------------------------------- registration

    # The instance floor of a rule is 60 % of the count confirmed by hand on the pinned tree (at least 1):
    # low enough that a refactoring which merges a few paths does not stop the check, high enough that a
    # rule which lost its anchor sites cannot pass vacuously.
    FLOOR_FACTOR = 0.6

    def rule(self, rule_id: str, text: str, expected_min: int = 1) -> None:
        if rule_id in self.rules and self.rules[rule_id].text != text:
            raise AnalysisError(f"rule id {rule_id} is declared twice with different texts (checker bug)")
        if rule_id not in self.rules:
            floor = max(1, int(expected_min * self.FLOOR_FACTOR + 0.999)) if expected_min > 2 else expected_min
            self.rules[rule_id] = RuleStats(rule_id, text, max(1, floor))

    def analysed(self, fi, npaths: int = 0) -> None:
        self.functions_analysed.add(fi.key if hasattr(fi, "key") else str(fi))
        self.paths_enumerated += npaths

    def ok(self, rule_id: str, instance: str, sample: dict | str | None = None) -> None:
        """Record a rule instance that holds."""
        st = self.rules[rule_id]
        st.instances += 1
        st.nontrivial.add(instance)
        if sample is not None and len(st.samples) < 4:
            st.samples.append({"rule": rule_id, "instance": instance, "holds": True, "what": sample})

    def fail(
        self,
        rule_id: str,
        instance: str,
        message: str,
        *,
        fi=None,
        node=None,
        file: str | None = None,
        line: int | None = None,
        func: str | None = None,
        details: list[str] | None = None,
        facts: dict | None = None,
    ) -> None:
        """Record a rule instance that is violated."""
        st = self.rules[rule_id]
        st.instances += 1
        st.nontrivial.add(instance)
        st.failed += 1
        if fi is not None:
            file = file or fi.module.path
            func = func or getattr(fi, "qualname", getattr(fi, "name", "?"))
            if line is None:
                line = getattr(node, "lineno", None) or fi.node.lineno
        v = Violation(
            self.prop,
            rule_id,
            file or "?",
            int(line or 0),
            func or "?",
            instance,
            message,
            list(details or []),
            dict(facts or {}),
        )
        # one report per key
        if not any(x.key == v.key for x in self.violations):
            self.violations.append(v)

    def assume(self, text: str) -> None:
        if text not in self.assumptions:
            self.assumptions.append(text)

    def note(self, text: str) -> None:
        self.notes.append(text)

    # ---------------------------------------------------------------- finishing

    def classify(self) -> tuple[list[Violation], list[tuple[Violation, dict]], list[str]]:
        """(new violations, known findings matched, instance-floor errors) - no I/O."""
        known = [k for k in load_known_findings() if k.get("property") == self.prop]
        known_keys = {k["key"]: k for k in known if k.get("status") == "known"}
        new: list[Violation] = []
        matched: list[tuple[Violation, dict]] = []
        for v in self.violations:
            if v.key in known_keys:
                matched.append((v, known_keys[v.key]))
            else:
                new.append(v)
        # instance-count floor: a rule that lost its sites must not pass vacuously
        short = [
            f"{st.rule}: matched {st.instances} instance(s), expected at least {st.expected_min}"
            for st in self.rules.values()
            if st.instances < st.expected_min
        ]
        return new, matched, short

    def finish(self, replay_filter: str | None = None) -> int:
        new, matched, short = self.classify()
        if getattr(self, "aborted", None):
            # a later rule could not be evaluated; the floors of rules that never ran mean nothing, but what the
            # rules that did run found stands
            short = [f"analysis incomplete: {self.aborted}"]

        wall = time.time() - self.t0
        total = sum(st.instances for st in self.rules.values())
        self._write_evidence(wall, total, new, matched)
        if not self.quiet:
            out(
                f"[{self.prop}] tier={self.tier} modules={len(self.model.modules)} "
                f"functions={len(self.functions_analysed)} paths={self.paths_enumerated} "
                f"rules={len(self.rules)} instances={total}"
            )
            for st in self.rules.values():
                out(
                    f"  {st.rule:8s} instances={st.instances:4d} (min {st.expected_min}) failed={st.failed}  {st.text}"
                )
            for n in self.notes:
                out(f"  note: {n}")
        for v, k in matched:
            out(f"KNOWN-FINDING: property={self.prop} {v.rule} {v.relfile}:{v.func} [{v.instance}] {k.get('what', v.message)}")
        code = 0
        if short:
            for s in short:
                out(f"ANALYSIS-ERROR property={self.prop} {s}")
            code = 2
        os.makedirs(REPLAY_DIR, exist_ok=True)
        if new:
            for v in new:
                out(f"{v.file}:{v.line}  {v.rule}  [{v.instance}]  in {v.func}: {v.message}")
                for d in v.details:
                    out(f"      {d}")
                digest = hashlib.sha256(v.key.encode()).hexdigest()[:10]
                rdir = os.path.join(REPLAY_DIR, self.prop)
                os.makedirs(rdir, exist_ok=True)
                rpath = os.path.join(rdir, f"{v.rule}-{digest}.json")
                with open(rpath, "w", encoding="utf-8") as f:
                    json.dump(v.to_json(), f, indent=1, sort_keys=True)
                out(f"VIOLATION property={self.prop} replay={rpath}")
            code = 1 if code == 0 else code
            if code == 2:
                code = 1
        if not self.quiet and code == 0:
            out(f"[{self.prop}] OK ({wall:.2f}s)")
        return code

    def _write_evidence(self, wall: float, total: int, new, matched) -> None:
        if os.environ.get("VERIF_NO_EVIDENCE"):
            return  # development runs against scratch copies (tools/benign.sh); never set by the manifest commands
        os.makedirs(EVIDENCE_DIR, exist_ok=True)
        samples: list = []
        for st in self.rules.values():
            samples.extend(st.samples[:2])
        samples = samples[:40]
        if not samples:
            samples = [{"note": "no instance samples recorded"}]
        distinct = len({(st.rule, i) for st in self.rules.values() for i in st.nontrivial})
        failed = sum(st.failed for st in self.rules.values())
        try:
            seed = int(os.environ.get("VERIF_SEED", "0"))
        except ValueError:
            seed = 0
        coverage = {
            "evaluations": total,
            "distinct_nontrivial": distinct,
            "rule": (
                "rule instances are enumerated from the parsed working tree (one per construct a rule ranges "
                "over: call site, guarded path, class x class cell, field ...); an instance is non-trivial when "
                "the rule matched a real construct; distinct = distinct (rule, instance-label) pairs"
            ),
            "samples": samples,
            "obligations": total,
            "discharged": total - failed,
            "checker_cmd": f"./check {self.prop} --tier {self.tier}",
            "trusted_base": self.trusted_base
            or [
                "CPython ast module (parsing of the working tree)",
                "the frozen reference tables in /verif/sa/props (DESIGN.md appendix B)",
            ],
            "explanation": self.explanation,
            "exhaustive": True,
            "modules_parsed": len(self.model.modules),
            "functions_analysed": len(self.functions_analysed),
            "paths_enumerated": self.paths_enumerated,
            "source_digest": self.model.sources.digest(),
            "per_rule": {
                st.rule: {
                    "text": st.text,
                    "instances": st.instances,
                    "expected_min": st.expected_min,
                    "failed": st.failed,
                }
                for st in self.rules.values()
            },
            "known_findings_matched": [v.key for v, _ in matched],
            "undecided": self.undecided,
        }
        coverage.update(self.extra)
        ev = {
            "property_id": self.prop,
            "tier": self.tier,
            "seed": seed,
            "level": self.level,
            "coverage": coverage,
            "assumptions": self.assumptions,
            "wall_s": round(wall, 3),
            "violations": len(new),
        }
        with open(os.path.join(EVIDENCE_DIR, f"{self.prop}.json"), "w", encoding="utf-8") as f:
            json.dump(ev, f, indent=1, sort_keys=True)
            f.write("\n")


def analysis_error(prop: str, tier: str, level: str, err: Exception) -> int:
    """Print the ANALYSIS-ERROR line and leave an evidence file saying so."""
    out(f"ANALYSIS-ERROR property={prop} {type(err).__name__}: {err}")
    os.makedirs(EVIDENCE_DIR, exist_ok=True)
    try:
        seed = int(os.environ.get("VERIF_SEED", "0"))
    except ValueError:
        seed = 0
    ev = {
        "property_id": prop,
        "tier": tier,
        "seed": seed,
        "level": level,
        "coverage": {
            "evaluations": 0,
            "distinct_nontrivial": 0,
            "explanation": f"analysis error, property undecided: {err}",
            "obligations": 0,
            "discharged": 0,
            "checker_cmd": f"./check {prop} --tier {tier}",
            "trusted_base": [],
            "samples": [],
        },
        "assumptions": [],
        "wall_s": 0.0,
        "violations": 0,
    }
    with open(os.path.join(EVIDENCE_DIR, f"{prop}.json"), "w", encoding="utf-8") as f:
        json.dump(ev, f, indent=1, sort_keys=True)
    return 2


__all__ = ["Violation", "Run", "analysis_error", "AnalysisError", "load_known_findings"]
