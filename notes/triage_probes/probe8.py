import sqlalchemy
from lsst.daf.relation import *
from lsst.daf.relation import iteration, sql
from lsst.daf.relation.tests import ColumnTag as T, to_sql_str
a,b,c,d = (T(x) for x in "abcd")
ie = iteration.Engine(); se = sql.Engine()
md = sqlalchemy.MetaData(); db = sqlalchemy.create_engine("sqlite://")
conn = db.connect()
def run(rel):
    q = se.to_executable(rel)
    return [dict(r._mapping) for r in conn.execute(q)], to_sql_str(q)
def trial(label, f):
    try: print("OK  ", label, "->", f())
    except Exception as e: print("EXC ", label, "->", type(e).__name__, e)
ref = ColumnExpression.reference; lit = ColumnExpression.literal
n = [0]
def upload(rows_rel, name):
    cols = sorted(rows_rel.columns, key=lambda t: t.qualified_name)
    t = sqlalchemy.Table(name, md, *[sqlalchemy.Column(cn.qualified_name, sqlalchemy.Integer) for cn in cols], prefixes=["TEMPORARY"])
    t.create(conn)
    rows = [ {k.qualified_name: v for k, v in r.items()} for r in ie.execute(rows_rel)]
    if rows: conn.execute(t.insert(), rows)
    p = sql.Payload(t); p.columns_available = se.extract_mapping(cols, t.columns); return p
class P(Processor):
    def __init__(self): self.log=[]
    def transfer(self, source, destination, materialize_as):
        self.log.append(("transfer", str(source), str(destination), materialize_as))
        if isinstance(destination, sql.Engine):
            n[0]+=1
            return upload(source, materialize_as or f"tmp{n[0]}")
        rows,_ = run(source); cols = list(source.columns)
        return iteration.RowSequence([{t: r[t.qualified_name] for t in cols} for r in rows])
    def materialize(self, target, name):
        self.log.append(("materialize", str(target), name))
        if isinstance(target.engine, iteration.Engine):
            return target.engine.execute(target).materialized()
        q = se.to_executable(target)
        cols = sorted(target.columns, key=lambda t: t.qualified_name)
        t = sqlalchemy.Table(name, md, *[sqlalchemy.Column(cn.qualified_name, sqlalchemy.Integer) for cn in cols], prefixes=["TEMPORARY"])
        t.create(conn); conn.execute(t.insert().from_select([cn.qualified_name for cn in cols], q))
        p = sql.Payload(t); p.columns_available = se.extract_mapping(cols, t.columns); return p
L = ie.make_leaf({a,b}, iteration.RowSequence([{a:1,b:2},{a:3,b:4},{a:5,b:6}]), name="L")
# case 1: transfer to sql then materialize directly
t1 = L.transferred_to(se).materialized(name="m1")
p = P(); r = p.process(t1)
trial("case1 str", lambda: (str(t1), str(r), p.log))
trial("case1 run", lambda: run(r))
trial("case1 more ops", lambda: run(p.process(t1.with_rows_satisfying(ref(a).gt(lit(1))))))
# case 2: transfer, op, materialize (materialize hook in SQL)
t2 = L.transferred_to(se).with_rows_satisfying(ref(a).gt(lit(1))).materialized(name="m2")
p = P(); r = p.process(t2)
trial("case2 str", lambda: (str(t2), str(r), p.log))
trial("case2 run", lambda: run(r))
r2 = p.process(t2)
trial("case2 again", lambda: (run(r2), p.log))
t2b = t2.with_only_columns({a})
trial("case2 downstream", lambda: run(p.process(t2b)))
# back to iteration
t3 = t2.transferred_to(ie).sorted([SortTerm(ref(a), False)])
trial("case3", lambda: (lambda r: (str(r), list(ie.execute(r))))(p.process(t3)))
