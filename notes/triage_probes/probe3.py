import traceback
from lsst.daf.relation import *
from lsst.daf.relation import iteration, sql
from lsst.daf.relation.tests import ColumnTag as T

a,b,c,d = (T(x) for x in "abcd")
e1 = iteration.Engine(name="e1")
e2 = iteration.Engine(name="e2")
def leaf(eng, cols, rows, name="l"):
    return eng.make_leaf(set(cols), iteration.RowSequence([dict(zip(cols, r)) for r in rows]), name=name)
def trial(label, f):
    try:
        r = f()
        print("OK  ", label, "->", r)
    except Exception as e:
        print("EXC ", label, "->", type(e).__name__, e)
ref = ColumnExpression.reference
lit = ColumnExpression.literal
L = leaf(e1, [a,b], [(1,2),(3,4),(5,6),(3,4)])
# tree: leaf(e1) -> proj{a} -> transfer e2 ; then calc b = a+1 preferred e1
t = L.with_only_columns({a}).transferred_to(e2)
r1 = t.with_calculated_column(b, ref(a).method("__add__", lit(1)))
r2 = t.with_calculated_column(b, ref(a).method("__add__", lit(1)), preferred_engine=e1)
trial("root", lambda: (str(r1), list(e2.execute(r1))))
trial("backtrack", lambda: (str(r2), r2.columns, list(e2.execute(r2))))
# Calculation past projection in same engine downstream
t2 = L.transferred_to(e2).with_only_columns({a})
r3 = None
trial("backtrack2", lambda: t2.with_calculated_column(b, ref(a).method("__add__", lit(1)), preferred_engine=e1))
# dedup backtrack past projection partial etc
t3 = L.transferred_to(e2).with_only_columns({a})
r4 = t3.without_duplicates(preferred_engine=e1)
trial("dedup bt", lambda: (str(r4), list(e2.execute(r4))))
# projection partial commute past selection
t4 = L.transferred_to(e2).with_rows_satisfying(ref(b).gt(lit(2)))
r5 = t4.with_only_columns({a}, preferred_engine=e1)
trial("proj partial", lambda: (str(r5), list(e2.execute(r5))))
r6 = None
trial("proj partial require", lambda: t4.with_only_columns({a}, preferred_engine=e1, require_preferred_engine=True))
# sort past dedup / selection past sort
t5 = L.transferred_to(e2).without_duplicates()
r7 = t5.sorted([SortTerm(ref(a), False)], preferred_engine=e1)
trial("sort bt", lambda: (str(r7), list(e2.execute(r7))))
# slice past sort should fail
t6 = L.transferred_to(e2).sorted([SortTerm(ref(a), False)])
r8 = t6[0:1]
trial("slice", lambda: (str(r8), list(e2.execute(r8))))
# join in iteration?
# materialization then ops
m = L.with_only_columns({a}).materialized(name="m")
trial("mat exec", lambda: (str(m), list(e1.execute(m)), m.payload))
trial("attach again", lambda: m.attach_payload(iteration.RowSequence([])))
trial("attach leaf", lambda: L.attach_payload(iteration.RowSequence([])))
# dedup zero columns bounds
z = L.with_only_columns(set())
trial("zero col", lambda: (z.min_rows, z.max_rows, z.without_duplicates().min_rows, z.without_duplicates().max_rows, list(e1.execute(z.without_duplicates()))))
trial("zero col dedup slice", lambda: (lambda r: (r.min_rows, r.max_rows, r.is_join_identity, list(e1.execute(r))))(z.without_duplicates()[0:1]))
