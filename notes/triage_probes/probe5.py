from lsst.daf.relation import *
from lsst.daf.relation import iteration
from lsst.daf.relation.tests import ColumnTag as T
a,b,c,d = (T(x) for x in "abcd")
e1 = iteration.Engine(name="e1"); e2 = iteration.Engine(name="e2")
def leaf(eng, cols, rows, name="l"):
    return eng.make_leaf(set(cols), iteration.RowSequence([dict(zip(cols, r)) for r in rows]), name=name)
ref = ColumnExpression.reference; lit = ColumnExpression.literal
L = leaf(e1, [a,b], [(1,1),(1,2),(2,1),(1,1)])
t = L.transferred_to(e2).without_duplicates()
r0 = t.with_only_columns({a}, preferred_engine=e1, backtrack=False)
r1 = t.with_only_columns({a}, preferred_engine=e1)
print(r0, list(e2.execute(r0)))
print(r1, list(e2.execute(r1)))
# projection past slice (ok), past sort with missing col
t = L.transferred_to(e2).sorted([SortTerm(ref(b))])
r1 = t.with_only_columns({a}, preferred_engine=e1)
print(r1, list(e2.execute(r1)))
# PartialJoin commute?? iteration doesn't support joins; skip
# Selection past dedup etc.
t = L.transferred_to(e2)[1:3]
for kw in [dict(), dict(preferred_engine=e1)]:
    r = t.with_rows_satisfying(ref(b).eq(lit(1)), **kw); print(r, list(e2.execute(r)))
    r = t.without_duplicates(**kw); print(r, list(e2.execute(r)))
    r = t.sorted([SortTerm(ref(b))], **kw); print(r, list(e2.execute(r)))
    r = t.with_calculated_column(c, ref(b).method("__neg__"), **kw); print(r, list(e2.execute(r)))
    r = t[0:1]; print(r, list(e2.execute(r)))
