import sqlalchemy
from lsst.daf.relation import *
from lsst.daf.relation import iteration, sql
from lsst.daf.relation.tests import ColumnTag as T, to_sql_str
a,b,c,d = (T(x) for x in "abcd")
ie = iteration.Engine(); se = sql.Engine()
md = sqlalchemy.MetaData()
def sleaf(name, cols):
    t = sqlalchemy.Table(name, md, *[sqlalchemy.Column(cn.qualified_name, sqlalchemy.Integer) for cn in cols])
    p = sql.Payload(t); p.columns_available = se.extract_mapping(cols, t.columns)
    return se.make_leaf(set(cols), p, name=name)
A = sleaf("A", [a,b,c])
L = ie.make_leaf({a,b}, iteration.RowSequence([]), name="L")
print("sql same-engine transfer is self:", A.transferred_to(se) is A, str(A.transferred_to(se)))
print("iter same-engine transfer is self:", L.transferred_to(ie) is L)
print("sql materialize leaf is self:", A.materialized() is A, str(A.materialized()))
m = A.with_only_columns({a}).materialized(name="m")
print("sql materialize materialized is self:", m.materialized() is m, str(m.materialized()))
print("sql proj all is self:", A.with_only_columns({a,b,c}) is A)
print("sql empty sort is self:", A.sorted([]) is A)
print("sql slice noop is self:", A[0:] is A)
print("conform idempotent:", se.conform(A) is A)
print(to_sql_str(se.to_executable(A.transferred_to(se))))
print(to_sql_str(se.to_executable(A.materialized())))
