import sqlalchemy, sqlite3, traceback
from lsst.daf.relation import *
from lsst.daf.relation import iteration, sql
from lsst.daf.relation.tests import ColumnTag as T

a,b,c,d = (T(x) for x in "abcd")
ie = iteration.Engine()
def leaf(cols, rows, name="l"):
    return ie.make_leaf(set(cols), iteration.RowSequence([dict(zip(cols, r)) for r in rows]), name=name)

L = leaf([a,b], [(1,2),(3,4),(5,6),(7,8)])
def trial(label, f):
    try:
        r = f()
        print("OK  ", label, "->", r)
    except Exception as e:
        print("EXC ", label, "->", type(e).__name__, e)

# C09 hash
trial("hash sort", lambda: hash(L.sorted([SortTerm(ColumnExpression.reference(a))])))
trial("hash container list", lambda: hash(L.with_rows_satisfying(ColumnContainer.sequence([ColumnExpression.literal(1)]).contains(ColumnExpression.reference(a)))))
trial("hash container range", lambda: hash(L.with_rows_satisfying(ColumnContainer.range_literal(range(3)).contains(ColumnExpression.reference(a)))))
# C05 slice merging
trial("slice beyond", lambda: list(ie.execute(L[1:3][5:6])))
trial("slice beyond2", lambda: list(ie.execute(L[1:3][2:])))
trial("slice beyond3", lambda: list(ie.execute(L[1:3][3:])))
# sort merge
r = L.sorted([SortTerm(ColumnExpression.reference(a))]).sorted([SortTerm(ColumnExpression.reference(a), False)])
trial("sort merge", lambda: (str(r), list(ie.execute(r))))
