import sqlalchemy
from lsst.daf.relation import *
from lsst.daf.relation import iteration, sql
from lsst.daf.relation.tests import ColumnTag as T, to_sql_str
a,b,c,d = (T(x) for x in "abcd")
ie = iteration.Engine(); ie2 = iteration.Engine(name="i2")
se = sql.Engine()
md = sqlalchemy.MetaData(); db = sqlalchemy.create_engine("sqlite://")
def sleaf(name, cols, rows, **kw):
    t = sqlalchemy.Table(name, md, *[sqlalchemy.Column(cn.qualified_name, sqlalchemy.Integer) for cn in cols]); t.create(db)
    with db.begin() as conn:
        if rows: conn.execute(t.insert(), [dict(zip([cn.qualified_name for cn in cols], r)) for r in rows])
    p = sql.Payload(t); p.columns_available = se.extract_mapping(cols, t.columns)
    return se.make_leaf(set(cols), p, name=name, **kw)
def run(rel):
    q = se.to_executable(rel)
    with db.connect() as conn:
        return [dict(r._mapping) for r in conn.execute(q)], to_sql_str(q)
def trial(label, f):
    try: print("OK  ", label, "->", f())
    except Exception as e: print("EXC ", label, "->", type(e).__name__, e)
ref = ColumnExpression.reference; lit = ColumnExpression.literal
A = sleaf("A", [a,b,c], [(1,10,100),(2,20,200),(3,30,300)])
class P(Processor):
    def __init__(self): self.log=[]
    def transfer(self, source, destination, materialize_as):
        self.log.append(("transfer", str(source), str(destination), materialize_as))
        if isinstance(source.engine, sql.Engine):
            rows,_ = run(source)
            cols = list(source.columns)
            return iteration.RowSequence([{t: r[t.qualified_name] for t in cols} for r in rows])
        raise NotImplementedError
    def materialize(self, target, name):
        self.log.append(("materialize", str(target), name))
        if isinstance(target.engine, iteration.Engine):
            return target.engine.execute(target).materialized()
        raise NotImplementedError
t = A.with_rows_satisfying(ref(a).gt(lit(1))).transferred_to(ie).materialized(name="m")
t2 = t.with_calculated_column(d, ref(a).method("__add__", lit(1)))
p = P()
r = p.process(t2)
trial("proc", lambda: (str(r), list(ie.execute(r)), p.log))
trial("orig payloads", lambda: (t.payload is not None, t.target.payload))
r2 = p.process(t2)
trial("proc again", lambda: (str(r2), list(ie.execute(r2)), p.log))
# Diagnostics
z = A.with_rows_satisfying(Predicate.literal(False))
trial("diag false", lambda: Diagnostics.run(z))
trial("diag slice0", lambda: Diagnostics.run(A[2:2]))
trial("diag slice0b", lambda: (A[0:0].max_rows, Diagnostics.run(A[0:0])))
trial("diag slice3", lambda: (A[5:7].max_rows, Diagnostics.run(A[5:7])))
# transfer round trip
trial("roundtrip", lambda: str(A.transferred_to(ie).transferred_to(se)))
trial("roundtrip is", lambda: A.transferred_to(ie).transferred_to(se) is A)
trial("3-engine", lambda: str(A.transferred_to(ie).transferred_to(ie2).transferred_to(se)))
trial("mat of leaf", lambda: str(A.materialized()))
trial("sql mat then ops", lambda: str(A.with_only_columns({a}).materialized(name="mm").with_only_columns({a})))
# C11
trial("sort slice sort", lambda: run(A.sorted([SortTerm(ref(a), False)])[0:2].sorted([SortTerm(ref(a))])))
trial("sort mat", lambda: A.sorted([SortTerm(ref(a), False)]).materialized())
trial("sort join", lambda: A.sorted([SortTerm(ref(a), False)]).join(A))
trial("sort slice join", lambda: run(A.sorted([SortTerm(ref(a), False)])[0:2].join(A.with_only_columns({a}))))
trial("sort sel", lambda: run(A.sorted([SortTerm(ref(a), False)]).with_rows_satisfying(ref(a).gt(lit(1)))))
trial("sort calc", lambda: run(A.sorted([SortTerm(ref(a), False)]).with_calculated_column(d, ref(a).method("__neg__"))))
trial("sort dedup slice", lambda: run(A.sorted([SortTerm(ref(a), False)]).without_duplicates()[1:2]))
trial("slice dedup", lambda: run(A[0:2].without_duplicates()))
trial("slice proj", lambda: run(A[0:2].with_only_columns({a})))
trial("dedup proj slice", lambda: run(A.without_duplicates().with_only_columns({a})[0:1]))
