import sqlalchemy, traceback
from lsst.daf.relation import *
from lsst.daf.relation import iteration, sql
from lsst.daf.relation.tests import ColumnTag as T, to_sql_str

a,b,c,d = (T(x) for x in "abcd")
x = T("x", is_key=False)
ie = iteration.Engine()
se = sql.Engine()
md = sqlalchemy.MetaData()
db = sqlalchemy.create_engine("sqlite://")
def sleaf(name, cols, rows):
    t = sqlalchemy.Table(name, md, *[sqlalchemy.Column(cn.qualified_name, sqlalchemy.Integer) for cn in cols])
    t.create(db)
    with db.begin() as conn:
        if rows:
            conn.execute(t.insert(), [dict(zip([cn.qualified_name for cn in cols], r)) for r in rows])
    p = sql.Payload(t)
    p.columns_available = se.extract_mapping(cols, t.columns)
    return se.make_leaf(set(cols), p, name=name)
def run(rel):
    q = se.to_executable(rel)
    with db.connect() as conn:
        return [dict(r._mapping) for r in conn.execute(q)], to_sql_str(q)
def trial(label, f):
    try:
        r = f()
        print("OK  ", label, "->", r)
    except Exception as e:
        print("EXC ", label, "->", type(e).__name__, e)

A = sleaf("A", [a,b,c], [(1,10,100),(2,20,200)])
B = sleaf("B", [a,b], [(1,11),(2,22)])
# join where rhs has projected-away column b shadowing lhs b
pa = A.with_only_columns({a,c})
trial("join B x proj(A)", lambda: run(B.join(pa)))
trial("join proj(A) x B", lambda: run(pa.join(B)))
# chain+sort+projection
ch = A.chain(A)
trial("chain sort proj", lambda: run(ch.sorted([SortTerm(ColumnExpression.reference(b))]).with_only_columns({a})))
trial("sort proj dedup proj", lambda: run(A.sorted([SortTerm(ColumnExpression.reference(c))]).with_only_columns({a,b}).without_duplicates().with_only_columns({a})))
trial("sort proj", lambda: run(A.sorted([SortTerm(ColumnExpression.reference(c), False)]).with_only_columns({a})))
trial("sort proj slice", lambda: run(A.sorted([SortTerm(ColumnExpression.reference(c), False)]).with_only_columns({a})[0:1]))
trial("sort proj dedup", lambda: run(A.sorted([SortTerm(ColumnExpression.reference(c), False)]).with_only_columns({a}).without_duplicates()))
trial("slice beyond sql", lambda: run(A[1:3][5:6]))
trial("join chain operand", lambda: run(B.join(A.chain(A))))
trial("calc on proj", lambda: run(A.with_only_columns({a}).with_calculated_column(b, ColumnExpression.reference(a).method("__add__", ColumnExpression.literal(1)))))
