import random, itertools
from lsst.daf.relation import *
from lsst.daf.relation import iteration
from lsst.daf.relation.tests import ColumnTag as T
a,b,c,d = (T(x) for x in "abcd")
x = T("x", is_key=False)
ie = iteration.Engine()
ref = ColumnExpression.reference; lit = ColumnExpression.literal
random.seed(7)
def rnd_rows(cols):
    return [ {k: random.randint(0,3) for k in cols} for _ in range(random.randint(0,6)) ]
def step(rel, rows):
    """return (new_rel, new_rows) applying a random op both via API and via reference semantics"""
    cols = sorted(rel.columns, key=lambda t: t.qualified_name)
    k = random.choice(["calc","proj","sel","dedup","sort","slice","chain","mat"])
    if k == "calc":
        free = [t for t in (a,b,c,d) if t not in rel.columns]
        if not free or not cols: return rel, rows
        tag = random.choice(free); src = random.choice(cols)
        return rel.with_calculated_column(tag, ref(src).method("__add__", lit(1))), [{**r, tag: r[src]+1} for r in rows]
    if k == "proj":
        keep = set(random.sample(cols, random.randint(0, len(cols))))
        return rel.with_only_columns(keep), [{kk: r[kk] for kk in keep} for r in rows]
    if k == "sel":
        if not cols: return rel, rows
        src = random.choice(cols); v = random.randint(0,3)
        return rel.with_rows_satisfying(ref(src).ge(lit(v))), [r for r in rows if r[src] >= v]
    if k == "dedup":
        seen = []; out = []
        for r in rows:
            key = tuple(sorted((kk.qualified_name, vv) for kk, vv in r.items()))
            if key not in seen: seen.append(key); out.append(r)
        return rel.without_duplicates(), out
    if k == "sort":
        if not cols: return rel, rows
        terms = [(random.choice(cols), random.random() < 0.5) for _ in range(random.randint(1,3))]
        out = list(rows)
        for col, asc in reversed(terms):
            out.sort(key=lambda r: r[col], reverse=not asc)
        return rel.sorted([SortTerm(ref(col), asc) for col, asc in terms]), out
    if k == "slice":
        s = random.randint(0,3); e = random.choice([None, s + random.randint(0,3)])
        return rel[s:e], rows[s:e]
    if k == "chain":
        return rel.chain(rel), rows + rows
    if k == "mat":
        return rel.materialized(), rows
bad = 0; n = 0
for i in range(4000):
    cols = [a, b]
    rows = rnd_rows(cols)
    rel = ie.make_leaf(set(cols), iteration.RowSequence([dict(r) for r in rows]), name="L")
    seq = []
    try:
        for j in range(random.randint(1,6)):
            rel, rows = step(rel, rows)
        got = [dict(r) for r in ie.execute(rel)]
    except ValueError as e:
        if "less than its start" in str(e): continue
        raise
    n += 1
    if got != rows:
        bad += 1
        if bad < 8: print("MISMATCH", rel, got, rows)
print("trees", n, "bad", bad)
