import sqlalchemy, itertools
from lsst.daf.relation import *
from lsst.daf.relation import iteration, sql
from lsst.daf.relation.tests import ColumnTag as T, to_sql_str
a,b,c,d = (T(x) for x in "abcd")
ie = iteration.Engine(); se = sql.Engine()
md = sqlalchemy.MetaData(); db = sqlalchemy.create_engine("sqlite://"); conn = db.connect()
def raw_leaf(name, cols, rows):
    t = sqlalchemy.Table(name, md, *[sqlalchemy.Column(cn.qualified_name, sqlalchemy.Integer) for cn in cols]); t.create(conn)
    if rows: conn.execute(t.insert(), [dict(zip([cn.qualified_name for cn in cols], r)) for r in rows])
    p = sql.Payload(t); p.columns_available = se.extract_mapping(cols, t.columns)
    return LeafRelation(se, frozenset(cols), p, name=name)
def run(rel):
    q = se.to_executable(rel)
    return [tuple(r) for r in conn.execute(q)], to_sql_str(q)
def trial(label, f):
    try: print("OK  ", label, "->", f())
    except Exception as e: print("EXC ", label, "->", type(e).__name__, e)
ref = ColumnExpression.reference; lit = ColumnExpression.literal
A = raw_leaf("A", [a,b], [(1,10),(2,20),(3,30),(2,20)])
ops = {
 "sel": Selection(ref(a).gt(lit(1))), "proj": Projection(frozenset({a})), "dedup": Deduplication(),
 "sort": Sort((SortTerm(ref(a), False),)), "slice": Slice(1, 3), "calc": Calculation(c, ref(a).method("__neg__")),
}
def raw(seq):
    r = A
    for k in seq: r = ops[k]._finish_apply(r)
    return r
def ref_eval(seq):
    rows = [dict(zip("ab", r)) for r in [(1,10),(2,20),(3,30),(2,20)]]
    return None
bad = 0
for n in (1,2,3):
    for seq in itertools.permutations(ops, n):
        if "proj" in seq and ("calc" in seq[seq.index("proj"):] or False): pass
        try:
            r = raw(seq)
        except Exception as e:
            continue
        try:
            cr = se.conform(r)
            assert se.conform(cr) is cr
            built = A
            sa = se.conform(A)
            # same sequence through API
            api = sa
            for k in seq:
                api = ops[k].apply(api)
            r1 = run(cr); r2 = run(api)
            if r1[1] != r2[1]:
                print("DIFF", seq, r1[1], "||", r2[1])
        except Exception as e:
            bad += 1
            print("EXC", seq, type(e).__name__, e)
print("bad", bad)
