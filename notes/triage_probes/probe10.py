import itertools, random
from lsst.daf.relation import *
from lsst.daf.relation import iteration
from lsst.daf.relation.tests import ColumnTag as T
a,b,c = (T(x) for x in "abc")
ie = iteration.Engine()
ref = ColumnExpression.reference; lit = ColumnExpression.literal
def leaf(rows, name, **kw):
    return ie.make_leaf({a,b}, iteration.RowSequence([dict(zip([a,b], r)) for r in rows]), name=name, **kw)
def loose_leaf(rows, name):
    return LeafRelation(ie, frozenset({a,b}), iteration.RowSequence([dict(zip([a,b], r)) for r in rows]), name=name, min_rows=0, max_rows=None)
leaves = [loose_leaf([], "E"), loose_leaf([(1,2),(3,4)], "L"), LeafRelation.make_doomed(ie, {a,b}, ["doomed"]), leaf([(5,6)], "M")]
unary = [
 lambda r: r.with_rows_satisfying(ref(a).gt(lit(2))),
 lambda r: r.with_rows_satisfying(ref(a).gt(lit(100))),
 lambda r: r.with_rows_satisfying(Predicate.literal(False)),
 lambda r: r[1:],
 lambda r: r[0:0],
 lambda r: r[5:9],
 lambda r: r.without_duplicates(),
 lambda r: r.sorted([SortTerm(ref(a))]),
 lambda r: r.with_only_columns({a}) if a in r.columns and r.columns != {a} else r,
 lambda r: r.materialized(),
]
random.seed(1)
def executor(rel):
    return bool(list(ie.execute(rel)))
bad = 0; n = 0
def gen(depth):
    if depth == 0: return random.choice(leaves)
    k = random.random()
    if k < 0.7: return random.choice(unary)(gen(depth-1))
    l = gen(depth-1); r = gen(depth-1)
    if l.columns != r.columns: return l
    return l.chain(r)
for i in range(3000):
    try:
        t = gen(random.randint(0,4))
    except ValueError:
        continue
    try:
        rows = list(ie.execute(t))
    except Exception as e:
        print("EXEC-EXC", t, type(e).__name__, e); bad+=1; continue
    d0 = Diagnostics.run(t)
    d1 = Diagnostics.run(t, executor)
    n += 1
    if d0.is_doomed and rows: print("FALSE-DOOM(no exec)", t, rows); bad += 1
    if d1.is_doomed != (not rows): print("INEXACT", t, rows, d1); bad += 1
    if (d0.is_doomed and not d0.messages) or (d1.is_doomed and not d1.messages): print("NO-MSG", t); bad += 1
    if not (t.min_rows <= len(rows) and (t.max_rows is None or len(rows) <= t.max_rows)): print("BOUNDS", t, len(rows), t.min_rows, t.max_rows); bad += 1
print("trees", n, "bad", bad)
