from lsst.daf.relation import *
from lsst.daf.relation import iteration
from lsst.daf.relation.tests import ColumnTag as T
a,b,c,d = (T(x) for x in "abcd")
e1 = iteration.Engine(name="e1"); e2 = iteration.Engine(name="e2")
def leaf(eng, cols, rows, name="l"):
    return eng.make_leaf(set(cols), iteration.RowSequence([dict(zip(cols, r)) for r in rows]), name=name)
ref = ColumnExpression.reference; lit = ColumnExpression.literal
L = leaf(e1, [a,b], [(1,2),(2,1),(1,1),(2,2)])
t = L.transferred_to(e2).sorted([SortTerm(ref(a))])
r0 = t.sorted([SortTerm(ref(b))])
r1 = t.sorted([SortTerm(ref(b))], preferred_engine=e1)
print(r0, list(e2.execute(r0)))
print(r1, list(e2.execute(r1)))
# selection past sort fine; dedup past sort
# Sort past dedup with non-key col? skip
# Selection past Calculation requiring calc'd column -> guard
t = L.transferred_to(e2).with_calculated_column(c, ref(a).method("__neg__"))
r = t.with_rows_satisfying(ref(c).lt(lit(-1)), preferred_engine=e1); print(r, list(e2.execute(r)))
r = t.with_only_columns({c}, preferred_engine=e1); print(r, list(e2.execute(r)))
r = t.with_only_columns({b}, preferred_engine=e1); print(r, list(e2.execute(r)))
r = t.with_only_columns({b,c}, preferred_engine=e1); print(r, list(e2.execute(r)))
