#!/bin/sh
# usage: tools/try_benign.sh <patch.diff>  - apply a behaviour-preserving change to /repo, run ALL quick checks, revert
P="$1"
git -C /repo apply "$P" || { echo "patch does not apply"; exit 3; }
for n in 01 02 03 04 05 06 07 08 09 10 11 12 13 14 15 16 17 18 19 20; do
  out=$(VERIF_NO_EVIDENCE=1 /verif/check "C$n" 2>&1); code=$?
  if [ $code -ne 0 ]; then echo "== C$n exit=$code"; echo "$out" | grep -E "^/repo|ANALYSIS-ERROR" | head -5; fi
done
git -C /repo checkout -- .
echo "done $P"
