"""Confirm a seeded change in its scratch worktree, file it under /verif/seeded/<id>/ and try the checks on it.

usage: tools/seed.py add <Cxx> <worktree> <i> --summary "..." --needs "..." [--props C03,C04]
       tools/seed.py run [<seed-id> ...]      re-run the registered checks against every filed seed (applies to /repo, reverts)
"""
import argparse, json, os, shutil, subprocess, sys

VERIF = os.path.dirname(os.path.dirname(os.path.abspath(__file__)))
SEEDED = os.path.join(VERIF, "seeded")
PY = "/venv/bin/python"


def sh(cmd, cwd=None, env=None):
    r = subprocess.run(cmd, shell=True, cwd=cwd, env=env, capture_output=True, text=True)
    return r.returncode, (r.stdout + r.stderr)


def confirm(wt, patch, demo):
    env = dict(os.environ, PYTHONPATH=f"{wt}/python")
    sh("git checkout -- python", cwd=wt)
    c0, o0 = sh(f"{PY} {demo}", cwd=wt, env=env)
    ca, oa = sh(f"git apply {patch}", cwd=wt)
    if ca != 0:
        return False, {"error": "patch does not apply: " + oa}
    cs, os_ = sh(f"{PY} -m pytest -q -p no:cacheprovider --timeout=900 tests", cwd=wt, env=env)
    c1, o1 = sh(f"{PY} {demo}", cwd=wt, env=env)
    sh("git checkout -- python", cwd=wt)
    tail = [l for l in os_.strip().splitlines() if "passed" in l or "failed" in l][-1:] or [os_.strip()[-200:]]
    ok = c0 == 0 and cs == 0 and "82 passed" in os_ and c1 != 0
    return ok, {"demo_clean_exit": c0, "suite_with_change": tail[0], "demo_with_change_exit": c1, "demo_with_change_tail": o1.strip().splitlines()[-1:] }


def run_checks(patch, props):
    res = {}
    c, o = sh(f"git -C /repo apply {patch}")
    if c != 0:
        return {"error": "does not apply to /repo: " + o}
    try:
        for p in props:
            code, out = sh(f"{VERIF}/check {p}", env=dict(os.environ, VERIF_NO_EVIDENCE="1"))
            rules = sorted({l.split()[1] for l in out.splitlines() if l.startswith("/") and len(l.split()) > 2 and l.split()[1].startswith("R")})
            res[p] = {"exit": code, "rules": rules, "violations": [l for l in out.splitlines() if l.startswith("/")][:4]}
    finally:
        sh("git -C /repo checkout -- .")
    return res


def registered_props():
    m = json.load(open(os.path.join(VERIF, "MANIFEST.json")))
    have = [c["property_id"] for c in m["checks"]]
    for f in os.listdir(os.path.join(VERIF, "sa", "props")):
        if f.startswith("c") and f[1:3].isdigit():
            pid = f[:3].upper()
            if pid not in have:
                have.append(pid)
    return sorted(have)


def main():
    ap = argparse.ArgumentParser()
    sub = ap.add_subparsers(dest="cmd")
    a = sub.add_parser("add")
    a.add_argument("prop"); a.add_argument("wt"); a.add_argument("i")
    a.add_argument("--summary", required=True); a.add_argument("--needs", required=True)
    a.add_argument("--props", default="")
    r = sub.add_parser("run"); r.add_argument("ids", nargs="*")
    args = ap.parse_args()
    if args.cmd == "add":
        patch = os.path.join(args.wt, f"patch{args.i}.diff"); demo = os.path.join(args.wt, f"demo{args.i}.py")
        ok, info = confirm(args.wt, patch, demo)
        print("confirmed" if ok else "NOT CONFIRMED", json.dumps(info))
        if not ok:
            sys.exit(1)
        sid = f"{args.prop}-{os.path.basename(args.wt.rstrip('/'))}-{args.i}"
        d = os.path.join(SEEDED, sid); os.makedirs(d, exist_ok=True)
        shutil.copy(patch, os.path.join(d, "patch.diff")); shutil.copy(demo, os.path.join(d, "demo.py"))
        props = [p for p in args.props.split(",") if p] or [args.prop]
        res = run_checks(os.path.join(d, "patch.diff"), props)
        meta = {"id": sid, "breaks_property": args.prop, "summary": args.summary, "needs_to_manifest": args.needs,
                "confirmed": info, "confirmed_how": "clean worktree: demo exits 0; patch applied: pytest 82 passed and demo exits non-zero; reverted",
                "checks_run": props, "detection": res,
                "detected": any(v.get("exit") == 1 for v in res.values() if isinstance(v, dict))}
        json.dump(meta, open(os.path.join(d, "meta.json"), "w"), indent=1)
        print(sid, "detected" if meta["detected"] else "MISSED", {k: v.get("rules") for k, v in res.items() if isinstance(v, dict)})
    elif args.cmd == "run":
        ids = args.ids or sorted(x for x in os.listdir(SEEDED) if os.path.exists(os.path.join(SEEDED, x, "meta.json")))
        for sid in ids:
            d = os.path.join(SEEDED, sid); meta = json.load(open(os.path.join(d, "meta.json")))
            props = meta.get("checks_run") or [meta["breaks_property"]]
            res = run_checks(os.path.join(d, "patch.diff"), props)
            meta["detection"] = res; meta["detected"] = any(v.get("exit") == 1 for v in res.values() if isinstance(v, dict))
            json.dump(meta, open(os.path.join(d, "meta.json"), "w"), indent=1)
            print(sid, "detected" if meta["detected"] else "MISSED", {k: (v.get("exit"), v.get("rules")) for k, v in res.items() if isinstance(v, dict)})

main()
