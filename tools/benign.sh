#!/bin/bash
# Run every quick check against every filed behaviour-preserving refactoring (seeded/benign/*.diff), in parallel,
# on scratch copies under /tmp/bn (removed afterwards).  Prints only checks that do not exit 0.
rm -rf /tmp/bn; mkdir -p /tmp/bn
for d in /verif/seeded/benign/*.diff; do
  id=$(basename "$d" .diff); mkdir -p /tmp/bn/$id/python/lsst/daf
  cp -r /repo/python/lsst/daf/relation /tmp/bn/$id/python/lsst/daf/
  (cd /tmp/bn/$id && patch -s -p1 < "$d") || echo "PATCH FAILED $id"
done
: > /tmp/bn/jobs
for d in /tmp/bn/*/; do id=$(basename "$d"); for n in 01 02 03 04 05 06 07 08 09 10 11 12 13 14 15 16 17 18 19 20; do echo "$id C$n" >> /tmp/bn/jobs; done; done
cat > /tmp/bn/one.sh <<'X'
#!/bin/bash
id=$1; c=$2
out=$(VERIF_NO_EVIDENCE=1 VERIF_REPO=/tmp/bn/$id /verif/check $c 2>&1); code=$?
if [ $code -ne 0 ]; then printf "== %s %s exit=%s\n%s\n" "$id" "$c" "$code" "$(echo "$out" | grep -E "^/tmp/bn|ANALYSIS-ERROR" | cut -c1-240 | head -3)"; fi
X
chmod +x /tmp/bn/one.sh
# phase 1 computes the foundation bundle once per patched copy (cached by source digest); phase 2 reuses it
grep " C01$" /tmp/bn/jobs | xargs -P 16 -L 1 /tmp/bn/one.sh > /tmp/benign_result.txt
grep -v " C01$" /tmp/bn/jobs | xargs -P 16 -L 1 /tmp/bn/one.sh >> /tmp/benign_result.txt
grep "^==" /tmp/benign_result.txt | sort | awk '{print $2, $3, $4}' | tr '\n' ';'
echo; echo "failing (patch,check) pairs: $(grep -c '^==' /tmp/benign_result.txt)"
rm -rf /tmp/bn
