"""Emit the markdown table of seeded changes and the rules that report them (for DESIGN.md section 13)."""
import json, os, sys
VERIF = os.path.dirname(os.path.dirname(os.path.abspath(__file__)))
rows = []
for sid in sorted(os.listdir(os.path.join(VERIF, "seeded"))):
    if not os.path.exists(os.path.join(VERIF, "seeded", sid, "meta.json")):
        continue
    m = json.load(open(os.path.join(VERIF, "seeded", sid, "meta.json")))
    det = []
    for prop, d in sorted(m.get("detection", {}).items()):
        if isinstance(d, dict) and d.get("exit") == 1:
            det.append(f"{prop}: {', '.join(d.get('rules', []))}")
    rows.append((sid, m["breaks_property"], m["summary"].replace("|", "/"), "; ".join(det) or "**missed**"))
print("| seed | breaks | change | reported by |")
print("|---|---|---|---|")
for r in rows:
    print("| " + " | ".join(r) + " |")
print(f"\n{sum(1 for r in rows if r[3] != '**missed**')} of {len(rows)} seeded changes are reported.")
