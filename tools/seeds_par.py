"""Run every filed seed against its listed checks in parallel, each on a scratch copy of /repo's package (never touches
/repo), and update seeded/<id>/meta.json.  usage: tools/seeds_par.py [seed-id ...]"""
import json, os, shutil, subprocess, sys, tempfile
from concurrent.futures import ThreadPoolExecutor

VERIF = os.path.dirname(os.path.dirname(os.path.abspath(__file__)))
SEEDED = os.path.join(VERIF, "seeded")


def one(sid):
    d = os.path.join(SEEDED, sid)
    meta = json.load(open(os.path.join(d, "meta.json")))
    props = meta.get("checks_run") or [meta["breaks_property"]]
    tmp = tempfile.mkdtemp(prefix=f"seed_{sid}_", dir="/tmp")
    try:
        os.makedirs(os.path.join(tmp, "python/lsst/daf"))
        shutil.copytree("/repo/python/lsst/daf/relation", os.path.join(tmp, "python/lsst/daf/relation"))
        r = subprocess.run(["patch", "-s", "-p1", "-i", os.path.join(d, "patch.diff")], cwd=tmp, capture_output=True, text=True)
        if r.returncode != 0:
            return sid, meta, {"error": "patch does not apply: " + r.stdout + r.stderr}
        res = {}
        for p in props:
            c = subprocess.run([os.path.join(VERIF, "check"), p], env=dict(os.environ, VERIF_REPO=tmp, VERIF_NO_EVIDENCE="1"), capture_output=True, text=True)
            out = c.stdout
            rules = sorted({l.split()[1] for l in out.splitlines() if l.startswith("/") and len(l.split()) > 2 and l.split()[1][:1] in ("R", "F")})
            res[p] = {"exit": c.returncode, "rules": rules, "violations": [l.replace(tmp, "/repo") for l in out.splitlines() if l.startswith("/")][:4]}
        return sid, meta, res
    finally:
        shutil.rmtree(tmp, ignore_errors=True)


def main():
    ids = sys.argv[1:] or sorted(x for x in os.listdir(SEEDED) if os.path.exists(os.path.join(SEEDED, x, "meta.json")))
    bad = 0
    with ThreadPoolExecutor(max_workers=14) as ex:
        for sid, meta, res in ex.map(one, ids):
            meta["detection"] = res
            meta["detected"] = any(isinstance(v, dict) and v.get("exit") == 1 for v in res.values())
            json.dump(meta, open(os.path.join(SEEDED, sid, "meta.json"), "w"), indent=1)
            own = res.get(meta["breaks_property"], {}) if isinstance(res, dict) else {}
            if not meta["detected"] or own.get("exit") != 1:
                bad += 1
                print(sid, "detected" if meta["detected"] else "MISSED", "own-property:", own.get("exit"), {k: (v.get("exit"), v.get("rules")) for k, v in res.items() if isinstance(v, dict)} if isinstance(res, dict) else res)
    print(f"{len(ids)} seeds; {bad} not reported by the property they break")


main()
