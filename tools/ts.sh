#!/bin/bash
# usage: tools/ts.sh <seed-id> [Cxx ...]   - run quick checks on a scratch copy of /repo with seeded/<id>/patch.diff applied
id=$1; shift
checks="$@"; [ -z "$checks" ] && checks="${id%%-*}"
D=/tmp/ts_$id; rm -rf $D; mkdir -p $D/python/lsst/daf
cp -r /repo/python/lsst/daf/relation $D/python/lsst/daf/
(cd $D && patch -s -p1 < /verif/seeded/$id/patch.diff) || echo "PATCH FAILED"
for c in $checks; do echo $c; done | xargs -P 16 -I{} sh -c "out=\$(VERIF_NO_EVIDENCE=1 VERIF_REPO=$D /verif/check {} 2>&1); code=\$?; echo \"== {} exit=\$code\"; echo \"\$out\" | grep -E '^/tmp/ts|ANALYSIS-ERROR|VIOLATION' | cut -c1-600 | head -8"
rm -rf $D
