"""Print python sources with docstrings and blank lines removed (reading aid only)."""
import ast, sys
for f in sys.argv[1:]:
    src = open(f).read()
    tree = ast.parse(src)
    lines = src.splitlines()
    skip = set()
    for n in ast.walk(tree):
        if isinstance(n, (ast.FunctionDef, ast.ClassDef, ast.Module)):
            for s in n.body:
                if isinstance(s, ast.Expr) and isinstance(s.value, ast.Constant) and isinstance(s.value.value, str):
                    skip.update(range(s.lineno, s.end_lineno + 1))
    print("=====", f)
    for i, l in enumerate(lines, 1):
        if i < 22 or i in skip or not l.strip():
            continue
        print(f"{i:4d} {l}")
