"""Regenerate sa/baseline_functions.json from /repo's HEAD: the functions that exist (anything else is a new helper
and gets inlined by the normaliser) and how each parameter of each unambiguously-signed package function is passed
at its call sites (the spelling the normaliser restores).  Run after a `fix:` commit that adds a function."""
import ast, json, os, sys
sys.path.insert(0, os.path.dirname(os.path.dirname(os.path.abspath(__file__))))
from sa.model import SourceSet
from sa.normalize import call_styles, function_locals

src = SourceSet.load("/repo")
trees = {rel: ast.parse(t) for rel, t in src.files.items()}
funcs = []
def collect(rel, body):
    for node in body:
        if isinstance(node, ast.FunctionDef):
            funcs.append(f"{rel}::{node.name}")
        elif isinstance(node, ast.ClassDef):
            for s in node.body:
                if isinstance(s, ast.FunctionDef):
                    funcs.append(f"{rel}::{node.name}.{s.name}")
        elif isinstance(node, ast.If):
            collect(rel, node.body)
            collect(rel, node.orelse)
        elif isinstance(node, ast.Try):
            collect(rel, node.body)
            for h in node.handlers:
                collect(rel, h.body)
            collect(rel, node.orelse)


for rel, tree in sorted(trees.items()):
    collect(rel, tree.body)
path = os.path.join(os.path.dirname(os.path.dirname(os.path.abspath(__file__))), "sa", "baseline_functions.json")
old = json.load(open(path))
locs = {}
for rel, tree in sorted(trees.items()):
    for node in tree.body:
        if isinstance(node, ast.FunctionDef):
            locs[f"{rel}::{node.name}"] = sorted(function_locals(node))
        elif isinstance(node, ast.ClassDef):
            for s in node.body:
                if isinstance(s, ast.FunctionDef):
                    locs[f"{rel}::{node.name}.{s.name}"] = sorted(function_locals(s))
from sa.model import Model

_m = Model(src)
init_order = {c.key: _m.init_order(c) for c in _m.all_classes() if c.is_dataclass and "__init__" not in c.methods}
defaults = {}
def _defaults(rel, qual, node):
    a = node.args
    pos = a.posonlyargs + a.args
    d = {}
    for arg, dv in zip(pos[len(pos) - len(a.defaults):], a.defaults):
        d[arg.arg] = ast.unparse(dv)
    for arg, dv in zip(a.kwonlyargs, a.kw_defaults):
        if dv is not None:
            d[arg.arg] = ast.unparse(dv)
    if d and not node.name.startswith("_") and not rel.startswith("tests"):
        defaults[f"{rel}::{qual}"] = d
for rel, tree in sorted(trees.items()):
    for node in tree.body:
        if isinstance(node, ast.FunctionDef):
            _defaults(rel, node.name, node)
        elif isinstance(node, ast.ClassDef):
            for s in node.body:
                if isinstance(s, ast.FunctionDef):
                    _defaults(rel, f"{node.name}.{s.name}", s)
def _canon_default(v):
    """The default *value* of a dataclass field: `x` for `= x` / `field(default=x)`, `factory:f` for default_factory, None if required."""
    import ast as _ast
    if isinstance(v, _ast.Call) and (getattr(v.func, "attr", None) == "field" or getattr(v.func, "id", None) == "field"):
        for k in v.keywords:
            if k.arg == "default":
                return _ast.unparse(k.value)
            if k.arg == "default_factory":
                return "factory:" + _ast.unparse(k.value)
        return None
    return _ast.unparse(v)


field_defaults = {}
for c in _m.all_classes():
    if c.is_dataclass and not c.module.rel.startswith("tests"):
        d = {f.name: _canon_default(f.node.value) for f in c.own_fields if f.node.value is not None and _canon_default(f.node.value) is not None}
        if d:
            field_defaults[c.key] = d
out = {"field_defaults": field_defaults, "defaults": defaults, "note": old.get("note", ""), "functions": sorted(set(funcs)), "call_styles": call_styles(trees), "locals": locs, "init_order": init_order}
json.dump(out, open(path, "w"), indent=0)
print(len(out["functions"]), "functions,", len(out["call_styles"]), "call-style entries;", "functions changed" if set(old.get("functions", [])) != set(out["functions"]) else "functions unchanged")
