#!/bin/bash
# usage: tools/tb.sh <benign-id> [Cxx ...]   - run quick checks on a scratch copy of /repo with seeded/benign/<id>.diff applied
id=$1; shift
checks="$@"; [ -z "$checks" ] && checks="C01 C02 C03 C04 C05 C06 C07 C08 C09 C10 C11 C12 C13 C14 C15 C16 C17 C18 C19 C20"
D=/tmp/tb_$id; rm -rf $D; mkdir -p $D/python/lsst/daf
cp -r /repo/python/lsst/daf/relation $D/python/lsst/daf/
(cd $D && patch -s -p1 < /verif/seeded/benign/$id.diff) || echo "PATCH FAILED"
for c in $checks; do echo $c; done | xargs -P 16 -I{} sh -c "out=\$(VERIF_NO_EVIDENCE=1 VERIF_REPO=$D /verif/check {} 2>&1); code=\$?; if [ \$code -ne 0 ]; then echo \"== {} exit=\$code\"; echo \"\$out\" | grep -E '^/tmp/tb|ANALYSIS-ERROR' | cut -c1-400 | head -6; fi"
rm -rf $D
echo "done $id"
