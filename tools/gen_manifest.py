"""Regenerate /verif/MANIFEST.json from the metadata each props module declares."""
import importlib
import json
import os
import sys

HERE = os.path.dirname(os.path.dirname(os.path.abspath(__file__)))
sys.path.insert(0, HERE)

NOT_APPLICABLE = {}

checks = []
na = []
for n in range(1, 21):
    pid = f"C{n:02d}"
    if pid in NOT_APPLICABLE:
        na.append({"property_id": pid, "reason": NOT_APPLICABLE[pid]})
        continue
    try:
        mod = importlib.import_module(f"sa.props.{pid.lower()}")
    except ModuleNotFoundError:
        na.append({"property_id": pid, "reason": "check not built yet (work in progress; see DESIGN.md section 4 for the planned rules)"})
        continue
    checks.append(
        {
            "property_id": pid,
            "quick_cmd": f"./check {pid} --tier quick",
            "thorough_cmd": f"./check {pid} --tier thorough",
            "evidence_file": f"/verif/evidence/{pid}.json",
            "replay_cmd_template": "./check " + pid + " --replay {path}",
            "engine": "sa",
            "level_claimed": {
                "category": mod.LEVEL,
                "text": mod.LEVEL_TEXT,
                "design_ref": f"DESIGN.md section 4, {pid}",
            },
            "level_note": mod.LEVEL_NOTE,
            "technique": mod.TECHNIQUE,
        }
    )

manifest = {
    "version": 1,
    "setup_cmd": "/venv/bin/python -m compileall -q sa >/dev/null 2>&1; true",
    "hooks": {
        "guard": "LSST_DAF_RELATION_VERIF",
        "enable": "none needed: the checks parse the working tree with ast and never execute or instrument daf_relation",
        "baseline_off_cmd": "cd /repo && /venv/bin/python -m pytest -ra -q -p no:cacheprovider --timeout=900 --continue-on-collection-errors",
        "source_commits": [],
        "add_only": True,
    },
    "engines": [
        {
            "name": "sa",
            "path": "/verif/sa",
            "serves_properties": [c["property_id"] for c in checks],
            "kind_free_text": "repository-specific static analysis on Python ast: package model (closed class hierarchies, "
            "dataclass fields, MRO, constant properties), guarded-path enumeration per function, abstract evaluation of "
            "guards over the closed class sets, per-path data-flow slices, who-may-call / who-may-write / dominance rules; "
            "thorough tier adds an in-memory sensitivity audit (catalogued single-site edits must be reported, "
            "behaviour-preserving twins must stay silent)",
        }
    ],
    "checks": checks,
    "not_applicable": na,
    "notes": "Static analysis only: no check imports, executes, fuzzes or symbolically executes daf_relation. "
    "Exit 0 = property held on everything analysed (KNOWN-FINDING lines possible), 1 = VIOLATION, 2 = ANALYSIS-ERROR "
    "(source shape the rule cannot decide; property undecided). Set VERIF_REPO to analyse another checkout.",
}
with open(os.path.join(HERE, "MANIFEST.json"), "w") as f:
    json.dump(manifest, f, indent=1)
    f.write("\n")
print(f"{len(checks)} checks, {len(na)} not applicable")
