#!/bin/sh
# usage: tools/try_seed.sh <patch.diff> <Cxx> [<Cyy> ...]   - apply a seeded change to /repo, run checks, revert
P="$1"; shift
git -C /repo apply "$P" || { echo "patch does not apply"; exit 3; }
for c in "$@"; do
  out=$(VERIF_NO_EVIDENCE=1 /verif/check "$c" 2>&1); code=$?
  echo "== $c exit=$code"; echo "$out" | grep -E "^/repo|VIOLATION|ANALYSIS-ERROR" | head -8
done
git -C /repo checkout -- . 
