"""File seeds from agent worktrees without touching /repo: confirm (clean demo 0; patched: 82 passed, demo != 0), copy,
write meta.json.  Detection is filled in by tools/seeds_par.py.
usage: tools/seed_file.py < spec.tsv     (columns: prop, worktree, index, props-to-run(comma), summary, needs)"""
import json, os, shutil, subprocess, sys
from concurrent.futures import ThreadPoolExecutor
sys.path.insert(0, os.path.dirname(os.path.abspath(__file__)))
VERIF = os.path.dirname(os.path.dirname(os.path.abspath(__file__)))
SEEDED = os.path.join(VERIF, "seeded")
PY = "/venv/bin/python"


def sh(cmd, cwd=None, env=None):
    r = subprocess.run(cmd, shell=True, cwd=cwd, env=env, capture_output=True, text=True)
    return r.returncode, r.stdout + r.stderr


def one(line):
    prop, wt, i, props, summary, needs = line.rstrip("\n").split("\t")
    patch, demo = os.path.join(wt, f"patch{i}.diff"), os.path.join(wt, f"demo{i}.py")
    # confirm on a private copy of the worktree's python dir so that several indices of one worktree run in parallel
    tmp = f"/tmp/confirm_{os.path.basename(wt)}_{i}"
    shutil.rmtree(tmp, ignore_errors=True)
    os.makedirs(tmp)
    sh(f"cp -r {wt}/python {wt}/tests {tmp}/ && cp {wt}/*.cfg {wt}/*.toml {tmp}/ 2>/dev/null; true")
    env = dict(os.environ, PYTHONPATH=f"{tmp}/python")
    c0, _ = sh(f"{PY} {demo}", cwd=tmp, env=env)
    ca, oa = sh(f"patch -s -p1 -i {patch}", cwd=tmp)
    cs, os_ = sh(f"{PY} -m pytest -q -p no:cacheprovider --timeout=900 tests", cwd=tmp, env=env)
    c1, o1 = sh(f"{PY} {demo}", cwd=tmp, env=env)
    shutil.rmtree(tmp, ignore_errors=True)
    ok = c0 == 0 and ca == 0 and cs == 0 and "82 passed" in os_ and c1 != 0
    sid = f"{prop}-{os.path.basename(wt.rstrip('/'))}-{i}"
    info = {"demo_clean_exit": c0, "suite_with_change": ([l for l in os_.strip().splitlines() if "passed" in l or "failed" in l][-1:] or ["?"])[0], "demo_with_change_exit": c1, "demo_with_change_tail": o1.strip().splitlines()[-1:]}
    if not ok:
        return sid, False, info
    d = os.path.join(SEEDED, sid)
    if os.path.exists(d):  # never overwrite a filed seed (round letters must be fresh)
        return sid, False, {"error": f"{d} exists already: choose another worktree name"}
    os.makedirs(d)
    shutil.copy(patch, os.path.join(d, "patch.diff"))
    shutil.copy(demo, os.path.join(d, "demo.py"))
    meta = {"id": sid, "breaks_property": prop, "summary": summary, "needs_to_manifest": needs, "confirmed": info,
            "confirmed_how": "copy of the agent's worktree: demo exits 0; patch applied: pytest 82 passed and demo exits non-zero",
            "checks_run": [p for p in props.split(",") if p] or [prop], "detection": {}, "detected": False}
    json.dump(meta, open(os.path.join(d, "meta.json"), "w"), indent=1)
    return sid, True, info


lines = [l for l in sys.stdin if l.strip() and not l.startswith("#")]
with ThreadPoolExecutor(max_workers=12) as ex:
    for sid, ok, info in ex.map(one, lines):
        print(sid, "confirmed" if ok else "NOT CONFIRMED", "" if ok else json.dumps(info))
